#!/bin/sh
# usage: selftest/sweep.sh TIER "C01 C02" "0 1 2"   -- runs each check on each seed from a fresh process
TIER=$1; CHECKS=$2; SEEDS=$3
cd "$(dirname "$0")/.." || exit 2
for s in $SEEDS; do for c in $CHECKS; do
  VERIF_SEED=$s ./check $c --tier $TIER 2>&1 | grep -E "^VIOLATION|^  key=|^INCONCLUSIVE|^$c " | cut -c1-300
done; done
