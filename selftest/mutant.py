#!/venv/bin/python
"""Confirm a seeded change and run checks against it.

  selftest/mutant.py keep SRC_DIR K ID PROP "C03 C06"   -- confirm m<K> from SRC_DIR, store as seeded/<ID>/
  selftest/mutant.py run ID ["C03 C06"] [--tier quick]    -- re-run checks against a stored seeded change
  selftest/mutant.py all [--tier quick]                   -- every stored change against its own checks

Confirmation = demo passes on the clean tree, patch applies, repository suite unchanged with it,
demo fails with it.  The patch is applied to /repo's working tree only and always reverted."""
import json
import os
import re
import shutil
import subprocess
import sys

VERIF = os.path.dirname(os.path.dirname(os.path.abspath(__file__)))
REPO = os.environ.get("MUTANT_REPO", "/repo")      # another worktree of /repo for parallel lanes
if REPO != "/repo":
    os.environ["VERIF_REPO"] = REPO


def sh(cmd, cwd=None, env=None, timeout=3600):
    p = subprocess.run(cmd, shell=True, cwd=cwd, env=env, capture_output=True, text=True, timeout=timeout)
    return p.returncode, (p.stdout + p.stderr)


def clean():
    sh("git reset -q && git checkout -- .", REPO)
    rc, out = sh("git status --porcelain", REPO)
    return out.strip() == ""


def apply(patch):
    rc, out = sh("git apply %s" % patch, REPO)
    if rc != 0:
        rc, out = sh("git apply --3way %s && git reset -q" % patch, REPO)
    return rc == 0, out


def demo(path):
    e = dict(os.environ, PYTHONPATH=REPO)
    e.pop("ODML_VERIF", None)
    rc, out = sh("/venv/bin/python %s" % path, cwd="/tmp", env=e, timeout=600)
    return rc, out.strip().splitlines()[-1][:200] if out.strip() else ""


def run_checks(checks, tier):
    res = {}
    for c in checks:
        rc, out = sh("./check %s --tier %s" % (c, tier), VERIF, timeout=7200)
        keys = re.findall(r"^  key=(\S+)", out, re.M)
        res[c] = {"exit": rc, "violation_keys": keys[:12],
                  "verdict": {0: "held (MISSED)", 1: "VIOLATION (caught)", 2: "inconclusive"}.get(rc, str(rc))}
    return res


def confirm_and_run(patch, demo_py, checks, tier):
    info = {}
    if not clean():
        raise SystemExit("repo not clean")
    if demo_py:
        rc, last = demo(demo_py)
        info["demo_on_clean_tree"] = {"exit": rc, "last_line": last}
    ok, out = apply(patch)
    if not ok:
        clean()
        info["applies"] = False
        info["apply_output"] = out[-400:]
        return info
    info["applies"] = True
    try:
        rc, out = sh("%s/selftest/run_tests.sh %s" % (VERIF, REPO))
        info["repo_suite_with_change"] = out.strip().splitlines()[-1]
        if demo_py:
            rc, last = demo(demo_py)
            info["demo_with_change"] = {"exit": rc, "last_line": last}
        info["checks"] = run_checks(checks, tier)
    finally:
        clean()
    return info


def main():
    a = sys.argv[1:]
    tier = "quick"
    if "--tier" in a:
        i = a.index("--tier")
        tier = a[i + 1]
        del a[i:i + 2]
    if a[0] == "keep":
        src, k, sid, prop, checks = a[1], a[2], a[3], a[4], a[5].split()
        d = os.path.join(VERIF, "seeded", sid)
        os.makedirs(d, exist_ok=True)
        shutil.copy(os.path.join(src, "m%s.diff" % k), os.path.join(d, "patch.diff"))
        shutil.copy(os.path.join(src, "m%s_demo.py" % k), os.path.join(d, "demo.py"))
        notes = open(os.path.join(src, "m%s.txt" % k)).read() if os.path.exists(os.path.join(src, "m%s.txt" % k)) else ""
        info = confirm_and_run(os.path.join(d, "patch.diff"), os.path.join(d, "demo.py"), checks, tier)
        meta = {"id": sid, "breaks_property": prop, "needs_to_manifest": notes.strip(),
                "origin": "independent sub-agent given only the property text and a scratch worktree",
                "confirmed": info, "checks_run": checks, "tier": tier}
        json.dump(meta, open(os.path.join(d, "meta.json"), "w"), indent=1)
        print(sid, json.dumps({k: v for k, v in info.items() if k != "checks"}))
        for c, r in info.get("checks", {}).items():
            print("   ", c, r["verdict"], r["violation_keys"][:3])
    elif a[0] in ("run", "all"):
        ids = [a[1]] if a[0] == "run" else sorted(os.listdir(os.path.join(VERIF, "seeded")))
        for sid in ids:
            d = os.path.join(VERIF, "seeded", sid)
            if not os.path.exists(os.path.join(d, "meta.json")):
                continue
            meta = json.load(open(os.path.join(d, "meta.json")))
            checks = a[2].split() if a[0] == "run" and len(a) > 2 else meta["checks_run"]
            info = confirm_and_run(os.path.join(d, "patch.diff"), os.path.join(d, "demo.py"), checks, tier)
            meta.setdefault("reruns", []).append({"tier": tier, "result": info})
            meta["reruns"] = meta["reruns"][-3:]
            json.dump(meta, open(os.path.join(d, "meta.json"), "w"), indent=1)
            print(sid, "applies=%s" % info.get("applies"), info.get("repo_suite_with_change"),
                  "demo:", info.get("demo_on_clean_tree", {}).get("exit"), "->", info.get("demo_with_change", {}).get("exit"))
            for c, r in info.get("checks", {}).items():
                print("   ", c, r["verdict"], r["violation_keys"][:3])


if __name__ == "__main__":
    main()
