#!/venv/bin/python
"""Regenerates MANIFEST.json from the table below (kept as code so the file is always schema-valid)."""
import json, os
HERE = os.path.dirname(os.path.dirname(os.path.abspath(__file__)))
BASE = ("cd /repo && env -u ODML_VERIF /venv/bin/python -m pytest -ra -q -p no:cacheprovider --timeout=900 "
        "--continue-on-collection-errors")
CHECKS = {}   # filled by entries below: id -> (category, technique, text, note, design_ref)


def add(pid, category, technique, text, note, ref):
    CHECKS[pid] = (category, technique, text, note, ref)


exec(open(os.path.join(HERE, "selftest", "manifest_entries.py")).read())

props = [json.loads(l) for l in open(os.path.join(HERE, "properties.jsonl"))]
checks, na = [], []
for p in props:
    pid = p["id"]
    if pid in CHECKS:
        cat, tech, text, note, ref = CHECKS[pid]
        checks.append({
            "property_id": pid,
            "quick_cmd": "./check %s --tier quick" % pid,
            "thorough_cmd": "./check %s --tier thorough" % pid,
            "evidence_file": "evidence/%s.json" % pid,
            "replay_cmd_template": "./check %s --replay {path}" % pid,
            "engine": "odml-runtime-monitors",
            "level_claimed": {"category": cat, "text": text, "design_ref": ref},
            "level_note": note,
            "technique": tech,
        })
    else:
        na.append({"property_id": pid, "reason": NOT_BUILT.get(pid, "check not built yet (work in progress); no claim is made")})
man = {
    "version": 1,
    "setup_cmd": "./setup.sh",
    "hooks": {"guard": "ODML_VERIF",
              "enable": "no source hooks: ./check sets ODML_VERIF=1 and instruments the classes of /repo's working tree in place at import time (vlib/)",
              "baseline_off_cmd": BASE, "source_commits": [], "add_only": True},
    "engines": [{"name": "odml-runtime-monitors", "path": "check",
                 "serves_properties": sorted(CHECKS),
                 "kind_free_text": "runtime monitoring: seeded/exhaustive workloads drive the real code from /repo while oracles (snapshot diff, reference models in models/, audit-hook file-system recorder, controlled thread scheduler) observe every execution"}],
    "checks": checks,
    "notes": "Exit 0 held / 1 violation (VIOLATION line + replay file) / 2 inconclusive. Known findings: known_findings.json. Every check spreads its cases over 8-16 fresh worker interpreters that differ in PYTHONHASHSEED and in process environment (default / ASCII locale / ASCII-only stdout / time zone UTC+9; C06 and C13 also warnings-as-errors); the evidence lists them under worker-environments. See DESIGN.md (section 10 = as built).",
    "not_applicable": na,
}
json.dump(man, open(os.path.join(HERE, "MANIFEST.json"), "w"), indent=1)
print("checks:", len(checks), "not claimed:", len(na))
