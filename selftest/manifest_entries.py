NOT_BUILT = {}
add("C01", "exploration", "round-trip monitor with independent reference model and vocabulary walker over generated, lattice-enumerated and foreign-emitted documents",
    "Runs the real XML writer and reader of the working tree on thousands of generated documents (every dtype, hostile text, all cardinality shapes) across all writer options, reader modes and entry points; an item-by-item model diff, an independent vocabulary walk of the written bytes, the strict reader's warning list and a representability oracle decide. Held means: no execution observed violated a clause; not a proof over all documents.",
    "Trusts lxml for the independent well-formedness parse; compares text after trimming; generator in vlib/gen.py bounds documents to <= 25 nodes (quick) and the hostile pool listed there.",
    "DESIGN.md §5 C01")
add("C02", "exploration", "round-trip monitor with independent layout walker, JSON-vs-YAML differential and foreign dictionary emitter",
    "Runs the real JSON/YAML writers and readers (string, file and dictionary entry points, strict and lenient) on generated documents; an exact item-by-item model diff, a layout walk of the re-parsed text and of DictWriter.to_dict's result against an independent 1.1 key table, a direct JSON-vs-YAML comparison and foreign-emitted dictionaries decide. Held = no observed execution violated a clause.",
    "Trusts plain json / PyYAML safe_load as independent parsers; agreement with XML follows by transitivity from C01; locale variation of the text-mode open is not explored.",
    "DESIGN.md §5 C02")
