NOT_BUILT = {}
add("C01", "exploration", "round-trip monitor with independent reference model and vocabulary walker over generated, lattice-enumerated and foreign-emitted documents",
    "Runs the real XML writer and reader of the working tree on thousands of generated documents (every dtype, hostile text, all cardinality shapes) across all writer options, reader modes and entry points; an item-by-item model diff, an independent vocabulary walk of the written bytes, the strict reader's warning list and a representability oracle decide. Held means: no execution observed violated a clause; not a proof over all documents.",
    "Trusts lxml for the independent well-formedness parse; compares text after trimming; generator in vlib/gen.py bounds documents to <= 25 nodes (quick) and the hostile pool listed there.",
    "DESIGN.md §5 C01")
add("C02", "exploration", "round-trip monitor with independent layout walker, JSON-vs-YAML differential and foreign dictionary emitter",
    "Runs the real JSON/YAML writers and readers (string, file and dictionary entry points, strict and lenient) on generated documents; an exact item-by-item model diff, a layout walk of the re-parsed text and of DictWriter.to_dict's result against an independent 1.1 key table, a direct JSON-vs-YAML comparison and foreign-emitted dictionaries decide. Held = no observed execution violated a clause.",
    "Trusts plain json / PyYAML safe_load as independent parsers; agreement with XML follows by transitivity from C01; locale variation of the text-mode open is not explored.",
    "DESIGN.md §5 C02")
add("C03", "exploration", "invariant-at-a-hook: whole-universe tree invariants and budgeted queries after every call of generated editing histories",
    "A directed deck covers every (operation x argument pre-state) cell and seeded random histories (5-40 public calls, tiny name alphabet, 1-2 documents) explore combinations; after every call the monitor walks every live object (private fields) and checks exactly-once containment, parent agreement, acyclicity, document == chain root, and drives get_path/document/itersections/iterproperties under a logical step budget. Held = the invariant was never observed broken on the executions produced.",
    "The driver is the only client, so its call boundary is the quiescent point; objects unreachable from the pool are not observed; op catalogue in vlib/hist.py.",
    "DESIGN.md §5 C03/C04")
add("C04", "exploration", "invariant-at-a-hook: sibling-name uniqueness, name/id well-formedness and per-operation id/name post-conditions over generated histories",
    "Same histories as C03 (names from a 3-letter alphabet so clashes are the norm; ids valid, upper-case, braced, truncated, garbage); after every call: no duplicate sibling names in any live container, names non-empty strings, ids canonical; post-conditions for constructors with malformed ids, new_id, rename to None/''.",
    "As C03. Names given to the API are strings (renaming to non-strings is outside the quantifier).",
    "DESIGN.md §5 C03/C04")
add("C05", "exploration", "invariant-at-a-hook on every Property: dtype validity, per-value type conformance, refusal type/atomicity, normal-form and text round-trip checks over an exhaustive single-operation deck and random value histories",
    "Enumerates every dtype x every pooled value (native, text form, near miss, empty, mixed, bracketed, tuple syntax) x every value operation x strict on/off, every dtype change and every dtype x dtype merge, then random value-edit histories; after each call the monitor checks every stored value against its dtype, that refusals are ValueError and change neither dtype nor values, that own values are re-assignable and that value -> text -> value is the identity.",
    "dtype inputs: canonical names, DType members, the documented aliases str/bool and invalid names; case variants such as 'Int' are outside the quantifier (observed: they are accepted and leave values untyped).",
    "DESIGN.md §5 C05")
add("C06", "fault_enumeration", "snapshot-before / compare-after monitor on every raising public call over an enumeration of (operation x failure cause) plus failure-heavy random histories",
    "Every editing operation, constructor and value operation is invoked in each pre-state that makes it fail (clash, wrong type, invalid cardinality, unconvertible value, duplicate inside an extend argument, unresolvable link, malformed id, invalid date, cycle); whenever a call exits by exception the identity-based snapshot of every live object taken at entry is compared with the state at exit.",
    "Snapshot covers child lists, parent, name, id, attributes, dtype, values (and identity of the value list), cardinalities, link/include, merge partner of every object reachable from the pool.",
    "DESIGN.md §5 C06")
