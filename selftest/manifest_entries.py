NOT_BUILT = {}
add("C01", "exploration", "round-trip monitor with independent reference model and vocabulary walker over generated, lattice-enumerated and foreign-emitted documents",
    "Runs the real XML writer and reader of the working tree on thousands of generated documents (every dtype, hostile text, all cardinality shapes) across all writer options, reader modes and entry points; an item-by-item model diff, an independent vocabulary walk of the written bytes, the strict reader's warning list and a representability oracle decide. Held means: no execution observed violated a clause; not a proof over all documents.",
    "Trusts lxml for the independent well-formedness parse; compares text after trimming; generator in vlib/gen.py bounds documents to <= 25 nodes (quick) and the hostile pool listed there.",
    "DESIGN.md §5 C01")
