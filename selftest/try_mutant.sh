#!/bin/sh
# usage: selftest/try_mutant.sh PATCH "C03 C06" [demo.py]
# Applies PATCH to /repo (working tree only), runs the repo test-suite, the demo and the quick checks, reverts.
PATCH=$1; CHECKS=$2; DEMO=$3
cd /repo || exit 2
if [ -n "$(git status --porcelain)" ]; then echo "repo not clean"; exit 2; fi
git apply --3way "$PATCH" 2>/dev/null || git apply "$PATCH" || { echo "PATCH DOES NOT APPLY"; git checkout -- . ; exit 3; }
trap 'cd /repo && git reset -q && git checkout -- .' EXIT
/verif/selftest/run_tests.sh /repo | tail -1
if [ -n "$DEMO" ]; then (cd /tmp && PYTHONPATH=/repo /venv/bin/python "$DEMO" >/tmp/demo_out.txt 2>&1; echo "demo exit=$? $(tail -1 /tmp/demo_out.txt | cut -c1-150)"); fi
cd /verif
for c in $CHECKS; do ./check $c --tier quick 2>&1 | grep -E "^VIOLATION|^  key=|^INCONCLUSIVE|^$c " | cut -c1-260; done
