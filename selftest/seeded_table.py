#!/venv/bin/python
"""Prints the markdown table of seeded changes (DESIGN.md 10.6) from seeded/*/meta.json."""
import json, os, re
HERE = os.path.dirname(os.path.dirname(os.path.abspath(__file__)))
rows = []
for sid in sorted(os.listdir(os.path.join(HERE, "seeded"))):
    mp = os.path.join(HERE, "seeded", sid, "meta.json")
    if not os.path.exists(mp):
        continue
    m = json.load(open(mp))
    res = (m.get("reruns") or [{"result": m["confirmed"]}])[-1]["result"]
    first = m["confirmed"]
    diff = open(os.path.join(HERE, "seeded", sid, "patch.diff")).read()
    files = sorted(set(re.findall(r"^\+\+\+ b/(\S+)", diff, re.M)))
    what = (m.get("needs_to_manifest") or "").strip().splitlines()
    what = next((l for l in what if l.strip()), "")[:110]
    caught = ["%s: %s" % (c, ", ".join(r["violation_keys"][:2]) or r["verdict"]) for c, r in res.get("checks", {}).items()
              if r["exit"] == 1]
    missed = [c for c, r in res.get("checks", {}).items() if r["exit"] != 1]
    missed_first = [c for c, r in first.get("checks", {}).items() if r["exit"] != 1]
    rows.append("| %s | %s | %s | %s | %s |" % (
        sid, ", ".join(f.replace("odml/", "") for f in files), what.replace("|", "/"),
        "; ".join(caught)[:230].replace("|", "/") or "-",
        ("missed at first by %s" % ",".join(missed_first)) if missed_first and not missed else
        ("%s: %s" % (m["status"], m["note"])) if m.get("status") in ("neutralised", "masked-by-known-finding", "not-caught", "outside-quantifier", "inconclusive") else
        ("neighbour check %s held (not its property)" % ",".join(missed)
         if missed and m["breaks_property"] not in missed else ("MISSED by %s" % ",".join(missed) if missed else ""))))
print("| Seeded change | Files | What it is (first line of the author's note) | Caught by (first keys) | Note |")
print("|---|---|---|---|---|")
print("\n".join(rows))
