#!/bin/sh
# Runs the repository's pinned test suite in DIR (default /repo) with the guard off and prints
# "TESTS ok" iff exactly the BASELINE stable set passes (the 2 network tests are expected to fail).
DIR=${1:-/repo}
cd "$DIR" || exit 2
unset ODML_VERIF
OUT=$(/venv/bin/python -m pytest -q -p no:cacheprovider --timeout=900 2>&1 | tail -15)
PASSED=$(echo "$OUT" | grep -Eo '[0-9]+ passed' | grep -Eo '[0-9]+')
FAILED=$(echo "$OUT" | grep -E '^FAILED' | grep -v -e test_handle_include -e test_handle_repository | wc -l)
if [ "$PASSED" = "238" ] && [ "$FAILED" = "0" ]; then echo "TESTS ok (238 passed)"; exit 0; fi
echo "$OUT"; echo "TESTS CHANGED: passed=$PASSED unexpected_failures=$FAILED"; exit 1
