#!/bin/sh
# Offline install of the contract libraries beside the repository's interpreter.
# Idempotent; ./check re-runs it when .deps is missing (restores drop ignored dirs).
cd "$(dirname "$0")" || exit 1
if [ -d .deps/icontract ]; then exit 0; fi
PIP_NO_INDEX=1 /venv/bin/pip install -q --no-index --find-links /opt/veriftools/wheels \
    --target .deps icontract deal >/dev/null 2>&1 || {
  echo "setup: offline install of icontract/deal failed (checks fall back to plain wrappers)"; }
exit 0
