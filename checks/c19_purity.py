"""C19 -- validation observes only: no side effects, repeatable, custom rules stay private.

Monitors:
  pure        identity-based snapshot (vlib.hist.snapshot) of every object in the validated document equal
              before/after Validation(obj), .report(), .run_validation(), obj.validate(), custom validations
  registry    fingerprint of the default rule registry (class -> set of function identities) taken at import
              and compared after every step of every history (object creation, cardinality setters, saves,
              loads, custom validations)
  private     a sentinel rule registered on Validation(obj, reset=True) fires in that instance and never shows
              up among the issues of any later default validation
  repeat      same objects validated twice in-process give the same issue multiset
  xprocess    the same documents (regenerated from the seed, ids drawn from the PRNG) validated in child
              processes with other PYTHONHASHSEED values give the same issue multiset
"""
import json
import os
import subprocess
import sys
import warnings

from vlib import core, gen, model, hist, env
from vlib.model import enc, dec
from checks import c08_validation as c08

PROPERTY = "C19"
LEVEL = "exploration"
SHARDS = {"quick": 8, "thorough": 16}
RULE = ("seeded documents (valid and purposely invalidated as in C08) x random histories of 6-20 steps out of "
        "{default validation of document/Section/Property, report(), custom validation with a sentinel rule, "
        "object creation, cardinality changes, save and load in XML / JSON / YAML / RDF through odml.save and ODMLWriter.to_string} with the registry fingerprint compared after every "
        "step; plus batches of documents re-validated in child processes under different PYTHONHASHSEED values; "
        "non-trivial = history containing a custom validation and a default validation; distinct = hash of "
        "(document spec without ids, history)")
ASSUMPTIONS = ["issue collections are compared as multisets of (object id string, object kind, issue id, rank, "
               "message)", "the default registry is Validation._handlers as it is right after importing odml"]
REQUIRED_MONITORS = ["pure", "registry", "private", "repeat", "xprocess"]

_FP = None


def fingerprint():
    from odml.validation import Validation
    return {k: frozenset(id(f) for f in v) for k, v in Validation._handlers.items()}


def fp_names():
    from odml.validation import Validation
    return {k: sorted(f.__name__ for f in v) for k, v in Validation._handlers.items()}


def check_registry(rec, where, case):
    rec.monitor("registry")
    now = fingerprint()
    if now != _FP:
        rec.violation("registry-changed-by:%s" % where, "default rules now %r" % fp_names(), case)
        return False
    return True


def issues_of(v):
    out = []
    for e in v.errors:
        o = e.obj
        out.append((str(getattr(o, "id", None)), model.kind(o), getattr(e.validation_id, "value", str(e.validation_id)),
                    e.rank, str(e.msg)))
    return sorted(out, key=repr)


def all_objs(doc):
    w = hist.World()
    w.objs.append(doc)
    return hist.universe(w)


def sentinel(obj):
    from odml.validation import ValidationError, IssueID
    yield ValidationError(obj, "SENTINEL custom rule", "warning", IssueID.custom_validation)


def run_history(case, ctx, sdir):
    import odml
    from odml.validation import Validation
    rec = ctx.rec
    spec = dec(case["spec"])
    rec.evaluation()
    with warnings.catch_warnings():
        warnings.simplefilter("ignore")
        doc = gen.build_doc(spec)
        c08.apply_muts(doc, case["muts"])
        if case.get("linker", 0) % 2 == 0:
            # a repository on the Document (no fetch: not a URL of an existing resource) that its Sections inherit
            try:
                doc._repository = "file:///nonexistent/verif_terms.xml"
            except Exception:
                pass
        if case.get("linker"):
            # a Section whose link is stored but not resolved (as after loading a file): validating must not resolve it
            tops = [s_ for s_ in doc.sections if "/" not in s_.name and s_.name not in (".", "..")]
            if tops:
                try:
                    doc.append(odml.Section("verif_linker", "t", link="/" + tops[case["linker"] % len(tops)].name))
                    rec.count("documents", "with-unresolved-link")
                except Exception as exc:
                    rec.count("documents", "linker-refused:" + type(exc).__name__)
        if not check_registry(rec, "document-construction", case):
            return
        from checks.c01_xml import no_ids
        steps = case["steps"]
        rec.case(core.h([enc(no_ids(spec)), case["muts"], steps]),
                 any(s[0] == "custom" for s in steps) and any(s[0] == "validate" for s in steps))
        for si, step in enumerate(steps):
            secs, props = c08.nodes_of(doc)
            objs = all_objs(doc)
            snap = hist.snapshot(objs)
            name = step[0]
            rec.count("steps", name)
            try:
                if name == "validate":
                    tgt = doc if step[1] == "doc" else (secs[step[2] % len(secs)] if step[1] == "sec" and secs else
                                                       (props[step[2] % len(props)] if props else doc))
                    v1 = Validation(tgt)
                    i1 = issues_of(v1)
                    v1.run_validation()
                    i1b = issues_of(v1)
                    rep = v1.report()
                    i1c = issues_of(v1)
                    _ = v1[tgt]
                    v2 = tgt.validate() if tgt is doc else Validation(tgt)
                    i2 = issues_of(v2)
                    rec.monitor("repeat")
                    if not (i1 == i1b == i1c == i2):
                        rec.violation("repeat/in-process-differs", "%d / %d / %d / %d issues" % (len(i1), len(i1b), len(i1c), len(i2)),
                                      dict(case, upto=si))
                    rec.monitor("private")
                    if any("SENTINEL" in i[4] for i in i1 + i2):
                        rec.violation("private/custom-rule-leaked-into-default-validation", "", dict(case, upto=si))
                elif name == "custom":
                    tgt = doc if step[1] == "doc" or not secs else secs[step[2] % len(secs)]
                    # (the flag in the forms callers use: True, 1, a non-empty text)
                    cv = Validation(tgt, validate=False, reset=[True, 1, "yes", True][step[2] % 4])
                    if cv._handlers is Validation._handlers:
                        rec.violation("private/reset-validation-shares-default-registry", "", dict(case, upto=si))
                    cv.register_custom_handler("section", sentinel)
                    if step[3]:
                        cv.register_custom_handler("property", sentinel)
                        cv.register_custom_handler("odML", sentinel)
                    cv.run_validation()
                    rec.monitor("private")
                    fired = [e for e in cv.errors if "SENTINEL" in str(e.msg)]
                    scope_secs = [o for o in (all_objs(tgt) if tgt is doc else _sub(tgt)) if model.kind(o) == "sec"]
                    if len([e for e in fired if model.kind(e.obj) == "sec"]) != len(scope_secs):
                        rec.violation("private/custom-rule-did-not-fire-on-every-section",
                                      "%d of %d" % (len(fired), len(scope_secs)), dict(case, upto=si))
                    if [e for e in cv.errors if "SENTINEL" not in str(e.msg)]:
                        rec.violation("private/reset-validation-ran-default-rules", "", dict(case, upto=si))
                    cv.report()
                    # a rule registered after the instance has already found issues is applied by the next report()
                    def sentinel2(obj):
                        from odml.validation import ValidationError, IssueID
                        yield ValidationError(obj, "SENTINEL-2 late rule", "warning", IssueID.custom_validation)
                    cv.register_custom_handler("section", sentinel2)
                    cv.report()
                    late = [e for e in cv.errors if "SENTINEL-2" in str(e.msg)]
                    if len(late) != len(scope_secs):
                        rec.violation("private/rule-registered-after-a-run-not-applied-by-report",
                                      "%d of %d Sections" % (len(late), len(scope_secs)), dict(case, upto=si))
                    # the library's own rule functions registered on custom validations must be repeatable too
                    import odml.validation as ov
                    rules = {"odML": [ov.section_unique_ids, ov.document_unique_ids, ov.section_unique_name_type],
                             "section": [ov.section_unique_ids, ov.property_unique_ids, ov.property_unique_names,
                                         ov.section_type_must_be_defined, ov.object_name_readable,
                                         ov.section_properties_cardinality, ov.section_sections_cardinality,
                                         ov.section_repository_present],
                             "property": [ov.property_dependency_check, ov.property_values_check,
                                          ov.property_values_cardinality, ov.object_required_attributes,
                                          ov.property_terminology_check]}
                    pick = step[2] % 8
                    results = []
                    for rep in range(3):
                        lv = Validation(tgt, validate=False, reset=True)
                        for klass, fns in rules.items():
                            lv.register_custom_handler(klass, fns[pick % len(fns)])
                        lv.run_validation()
                        results.append(issues_of(lv))
                        if rep == 1:
                            lv.run_validation()
                            results.append(issues_of(lv))
                    rec.monitor("repeat")
                    if any(r != results[0] for r in results[1:]):
                        rec.violation("repeat/custom-validation-with-library-rules-differs",
                                      "issue counts %r" % [len(r) for r in results], dict(case, upto=si))
                elif name == "create":
                    par = secs[step[1] % len(secs)] if secs else doc
                    if step[2]:
                        odml.Section("new%d" % si, "t", parent=par, sec_cardinality=(1, 2))
                    else:
                        odml.Property("new%d" % si, values=[1, 2], parent=par, val_cardinality=1)
                elif name == "card":
                    if secs:
                        s = secs[step[1] % len(secs)]
                        s.sec_cardinality = dec(step[2])
                        s.set_properties_cardinality(1, 3)
                    if props:
                        props[step[1] % len(props)].val_cardinality = dec(step[2])
                elif name == "save":
                    p = os.path.join(sdir, "c19.%s" % step[1].lower())
                    try:
                        if si % 3 == 2:
                            from odml.tools.odmlparser import ODMLWriter
                            ODMLWriter(step[1]).to_string(doc)
                        else:
                            odml.save(doc, p, step[1])
                        rec.count("saves", step[1])
                    except Exception as exc:
                        rec.count("saves", "%s:refused-%s" % (step[1], type(exc).__name__))
                elif name == "load":
                    p = os.path.join(sdir, "c19.%s" % step[1].lower())
                    if os.path.exists(p):
                        try:
                            odml.load(p, step[1], show_warnings=True)
                        except Exception:
                            pass
            except Exception as exc:
                rec.outcome("step-raised:%s:%s" % (name, type(exc).__name__))
            # (an RDF export resolves links by design - RDF has no notion of them - so it is not a pure observer of a
            # document with an unresolved link; the validation that precedes every save is judged through the other formats)
            if name in ("validate", "custom", "save") and not (name == "save" and step[1] == "RDF" and case.get("linker")):
                rec.monitor("pure")
                changed = hist.snapshot_diff(snap, hist.snapshot(all_objs(doc)), objs)
                if changed:
                    rec.violation("pure/%s-changed-%s" % (name, "+".join(changed)[:80]),
                                  "step %r changed %s" % (step, changed), dict(case, upto=si))
            if not check_registry(rec, name, dict(case, upto=si)):
                return


def _sub(sec):
    out = [sec]
    queue = list(list.__iter__(sec.__dict__["_sections"]))
    while queue:
        s = queue.pop(0)
        out.append(s)
        queue.extend(list.__iter__(s.__dict__["_sections"]))
    return out


def gen_steps(rng, n):
    steps = []
    for _ in range(n):
        k = rng.choice(["validate", "validate", "custom", "create", "card", "save", "load"])
        if k == "validate":
            steps.append(["validate", rng.choice(["doc", "sec", "prop"]), rng.randrange(10 ** 6)])
        elif k == "custom":
            steps.append(["custom", rng.choice(["doc", "sec"]), rng.randrange(10 ** 6), rng.random() < 0.5])
        elif k == "create":
            steps.append(["create", rng.randrange(10 ** 6), rng.random() < 0.5])
        elif k == "card":
            steps.append(["card", rng.randrange(10 ** 6), enc(rng.choice([None, (1, 2), (None, 1), (3, None), 2]))])
        else:
            steps.append([k, rng.choice(["XML", "JSON", "YAML", "RDF"])])
    return steps


def doc_for(seed, i):
    import random
    rng = random.Random("C19x|%s|%d" % (seed, i))
    spec = gen.gen_doc(rng, max_nodes=rng.choice([4, 10, 20]), hostile=0.2)
    with warnings.catch_warnings():
        warnings.simplefilter("ignore")
        doc = gen.build_doc(spec)
        muts = c08.gen_muts(rng, doc, rng.choice([0, 1, 2, 3]))
        c08.apply_muts(doc, muts)
        # string values that several of the "might fit another dtype" hints match at once (line break = text, leading
        # t / True = boolean, parenthesis = tuple, digits = int): which hint is given must not depend on the process
        secs_ = list(doc.itersections())
        if secs_:
            import odml, uuid
            for k_, vals_ in enumerate((["true\nline", "t\nx"], ["(1;2;3)\n(4;5;6)"], ["12\n13"], ["2020-01-02\n01:02:03"])):
                try:
                    odml.Property("ambiguous_text_%d" % k_, values=vals_, dtype="string", parent=secs_[i % len(secs_)],
                                  oid=str(uuid.uuid5(uuid.NAMESPACE_DNS, "verif-ambiguous-%s-%d" % (doc.id, k_))))
                except Exception:
                    pass
        # terminologies: two resources of the same file name in different directories, and one that parses but cannot be
        # finalised; which one a Section names alternates from document to document
        tdir = os.environ.get("C19_TERM_DIR")
        if tdir and i % 4 == 0 and secs_:
            tops_ = list(doc.sections)
            which = ["labA", "labB"][(i // 16) % 2]
            tops_[0]._repository = "file://" + os.path.join(tdir, which, "terminology.xml")
            if len(tops_) > 1:
                tops_[1]._repository = "file://" + os.path.join(tdir, "broken" if i % 8 == 0 else ("labB" if which == "labA" else "labA"),
                                                                 "terminology.xml")
                if i % 8 == 0:
                    tops_[1].type = "cell"        # a type the resource that cannot be finalised does describe
    return doc


TERM_XML = ('<?xml version="1.0" encoding="UTF-8"?>\n<odML version="1.1">\n'
            '<section><name>%s</name><type>%s</type></section>\n<section><name>%s</name><type>%s</type>%s</section>\n</odML>\n')


def write_terminologies(tdir):
    for lab, (t1, t2, extra) in {"labA": ("subject", "recording", ""), "labB": ("cell", "setup", ""),
                                 "broken": ("subject", "cell", "<link>/nowhere/at all</link>")}.items():
        os.makedirs(os.path.join(tdir, lab), exist_ok=True)
        with open(os.path.join(tdir, lab, "terminology.xml"), "w") as f:
            f.write(TERM_XML % (t1, t1, t2, t2, extra))
    os.environ["C19_TERM_DIR"] = tdir


def xprocess_issues(seed, idxs):
    from odml.validation import Validation
    import odml.validation as ov
    out = {}
    for i in idxs:
        with warnings.catch_warnings():
            warnings.simplefilter("ignore")
            doc = doc_for(seed, i)
            res = [list(x) for x in issues_of(Validation(doc))]
            # the optional terminology rule, run twice on its own validation: what it reports must not depend on an earlier
            # run, on what else was validated before in this process, or on the state of the cache
            first_errors = []
            for run_ in (1, 2):
                try:
                    lv = Validation(doc, validate=False, reset=True)
                    lv.register_custom_handler("section", ov.section_repository_present)
                    lv.run_validation()
                    res += [["#terminology-rule-run", run_]] + [list(x) for x in issues_of(lv)]
                    if run_ == 1:
                        first_errors = list(lv.errors)
                except Exception as exc:
                    res += [["#terminology-rule-run", run_], ["raised", type(exc).__name__]]
            # what the two well-formed resources describe is known here (write_terminologies): a Section that names one of
            # them draws the "not found" issue exactly when its type is not among the resource's types
            known = {"labA": ("subject", "recording"), "labB": ("cell", "setup")}
            k1 = res.index(["#terminology-rule-run", 1])
            k2 = res.index(["#terminology-rule-run", 2])
            for s_ in list(doc.sections)[:2]:
                repo = s_.__dict__.get("_repository") or ""
                lab = repo.split("/")[-2] if repo.endswith("/terminology.xml") else None
                if lab in known and s_.type and (s_.type in known[lab] or str(s_.type).lower() not in known[lab]):
                    # (a Section without a type has nothing to look up, and whether 'Recording' finds 'recording' is the
                    # business of the type lookup, which compares without regard to case: neither is judged)
                    said = any(e_.obj is s_ and "not found in terminology" in str(e_.msg) for e_ in first_errors)
                    if said != (s_.type not in known[lab]):
                        res.append(["#terminology-oracle-mismatch", lab, str(s_.type), "reported-not-found" if said else "no-issue"])
            out[str(i)] = res
    return out


def child_main():
    """Entry of the child process: prints the issue collections as JSON."""
    env.bootstrap(quiet=True)
    seed, idxs = int(sys.argv[2]), json.loads(sys.argv[3])
    if isinstance(idxs, dict):
        env.say(json.dumps(file_issues(idxs)))
        return
    env.say(json.dumps(xprocess_issues(seed, idxs)))


def file_issues(paths):
    """Issue collections of the documents in the given files {index: [path, format]} (the other process of the
    'handed over in a file' monitor)."""
    import odml
    from odml.validation import Validation
    out = {}
    for i, (path, fmt) in paths.items():
        with warnings.catch_warnings():
            warnings.simplefilter("ignore")
            try:
                out[str(i)] = [list(x) for x in issues_of(Validation(odml.load(path, fmt, show_warnings=False)))]
            except Exception as exc:
                out[str(i)] = "load-raised:%s" % type(exc).__name__
    return out


CONTROL_NAMES = ["na\x0bme", "ty\x00pe", "bell\x07"]


def plain_doc_for(seed, i):
    """A document of the plain kind every format holds without loss (no n-tuples, no hostile text: C01 / C02 judge
    those), with invalidations; every tenth one has a control character in a name or type (XML cannot hold it: the
    save has to refuse, and then there is nothing to compare)."""
    import random
    rng = random.Random("C19f|%s|%d" % (seed, i))
    spec = gen.gen_doc(rng, max_nodes=rng.choice([4, 10]), hostile=0.0, tuples=False)
    with warnings.catch_warnings():
        warnings.simplefilter("ignore")
        doc = gen.build_doc(spec)
        # only invalidations a file can hold (values that do not fit their dtype, emptied names, dependency values
        # that are numbers and blank-padded names are states a text format does not keep: C01 / C02 / C08 judge
        # those; documents with errors are refused by save and not judged)
        c08.apply_muts(doc, [m for m in c08.gen_muts(rng, doc, rng.choice([2, 3, 4]))
                             if m[0] in ("clear-type", "clear-name", "card")])
        secs_ = list(doc.itersections())
        if i % 10 == 0 and secs_:
            try:
                if i % 20 == 0:
                    secs_[-1].name = CONTROL_NAMES[i % 3]
                else:
                    secs_[-1].type = CONTROL_NAMES[i % 3]
            except Exception:
                pass
    return doc


def run(ctx):
    global _FP
    rec = ctx.rec
    sdir = env.scratch()
    import odml  # noqa
    _FP = fingerprint()
    rec.extra["default_rules"] = {k: len(v) for k, v in _FP.items()} if ctx.shard == 0 else {}
    for i in range(ctx.pick(600, 100000)):
        if not ctx.mine(i):
            continue
        rng = ctx.rng("hist", i)
        rng.seed("C19|%s|%d" % (ctx.seed, i))
        spec = gen.gen_doc(rng, max_nodes=rng.choice([4, 10]), hostile=0.2)
        with warnings.catch_warnings():
            warnings.simplefilter("ignore")
            probe = gen.build_doc(spec)
        muts = c08.gen_muts(rng, probe, rng.choice([0, 0, 1, 2]))
        case = {"spec": enc(spec), "muts": muts, "steps": gen_steps(rng, rng.randrange(6, 20)),
                "linker": rng.choice([0, 0, 1, 2])}
        run_history(case, ctx, sdir)
        if i < 2:
            rec.sample({"steps": case["steps"][:8], "muts": muts})
        if ctx.time_left() < 0:
            break
    # cross-process repeatability
    write_terminologies(os.path.join(sdir, "c19terms_%d" % os.getpid()))
    nb = ctx.pick(100, 8000)
    mine = [i for i in range(nb) if ctx.mine(i)]
    for b in range(0, len(mine), 25):
        idxs = mine[b:b + 25]
        here = xprocess_issues(ctx.seed, idxs)
        for hs in ("1", "987654321"):
            e = dict(os.environ, PYTHONHASHSEED=hs)
            try:
                p = subprocess.run([sys.executable, "-c",
                                    "import sys; sys.path.insert(0, %r); from checks import c19_purity; c19_purity.child_main()" % env.VERIF,
                                    "x", str(ctx.seed), json.dumps(idxs)], env=e, capture_output=True, text=True,
                                   timeout=600, cwd=env.VERIF)
                there = json.loads(p.stdout.strip().splitlines()[-1])
            except Exception as exc:
                rec.inconclusive_because("cross-process child failed: %r" % (exc,))
                continue
            for i in idxs:
                rec.monitor("xprocess")
                rec.evaluation()
                a, b_ = here[str(i)], there.get(str(i))
                if hs == "1":
                    for mm in [x for x in a if x and x[0] == "#terminology-oracle-mismatch"]:
                        rec.violation("terminology-rule/other-resource-consulted", "doc %d: Section of type %r naming %s: %s" % (
                            i, mm[2], mm[1], mm[3]), {"xprocess": i, "hashseed": hs})
                    k1, k2 = a.index(["#terminology-rule-run", 1]), a.index(["#terminology-rule-run", 2])
                    k3 = min([j_ for j_, x in enumerate(a) if x and x[0] == "#terminology-oracle-mismatch"] or [len(a)])
                    if a[k1 + 1:k2] != a[k2 + 1:k3]:
                        rec.violation("repeat/terminology-rule-differs-between-two-runs", "doc %d: %r then %r" % (
                            i, [x[-1] for x in a[k1 + 1:k2]][:2], [x[-1] for x in a[k2 + 1:k3]][:2]), {"xprocess": i, "hashseed": hs})
                if a != b_:
                    rec.violation("xprocess/issues-differ-under-other-hash-seed",
                                  "doc %d: %d vs %d issues; first difference %r" % (
                                      i, len(a), len(b_ or []), next((x for x in a if x not in (b_ or [])), None)),
                                  {"xprocess": i, "hashseed": hs})
        _ = doc_for  # keep
    # the same document handed to another process in a file: validated there it reports what it reports here
    from odml.validation import Validation
    nf = ctx.pick(90, 6000)
    minef = [i for i in range(nf) if ctx.mine(i)]
    for b in range(0, len(minef), 30):
        idxs = minef[b:b + 30]
        here, paths = {}, {}
        for i in idxs:
            with warnings.catch_warnings():
                warnings.simplefilter("ignore")
                doc = plain_doc_for(ctx.seed, i)
                fmt = ["XML", "JSON", "YAML"][i % 3]
                here[str(i)] = [list(x) for x in issues_of(Validation(doc))]
                path = os.path.join(sdir, "c19_file_%d_%d.%s" % (os.getpid(), i, fmt.lower()))
                try:
                    odml.save(doc, path, fmt)
                    paths[str(i)] = [path, fmt]
                    rec.count("handed-over-in-a-file", fmt + ":saved")
                except Exception as exc:
                    rec.count("handed-over-in-a-file", "%s:save-refused-%s (not judged)" % (fmt, type(exc).__name__))
        if not paths:
            continue
        try:
            p = subprocess.run([sys.executable, "-c",
                                "import sys; sys.path.insert(0, %r); from checks import c19_purity; c19_purity.child_main()" % env.VERIF,
                                "x", str(ctx.seed), json.dumps(paths)], env=dict(os.environ, PYTHONHASHSEED="4242"),
                               capture_output=True, text=True, timeout=600, cwd=env.VERIF)
            there = json.loads(p.stdout.strip().splitlines()[-1])
        except Exception as exc:
            rec.inconclusive_because("file hand-over child failed: %r" % (exc,))
            continue
        for i in paths:
            rec.monitor("handed-over-in-a-file")
            rec.evaluation()
            a, b_ = here[i], there.get(i)
            if a != b_:
                diff = b_ if isinstance(b_, str) else next((x for x in a if x not in (b_ or [])), None) or \
                    next((x for x in (b_ or []) if x not in a), None)
                kind_ = diff if isinstance(diff, str) else "issue-%s" % (diff[2] if diff else "?")
                rec.violation("via-file/issues-differ:%s:%s" % (paths[i][1], kind_),
                              "doc %s: %d issues here, %s there; first difference %r" % (
                                  i, len(a), len(b_) if isinstance(b_, list) else b_, diff), {"viafile": int(i)})
            try:
                os.remove(paths[i][0])
            except OSError:
                pass


def replay(case, ctx):
    global _FP
    import odml  # noqa
    _FP = fingerprint()
    if "viafile" in case:
        from odml.validation import Validation
        doc = plain_doc_for(ctx.seed, case["viafile"])
        env.say(json.dumps([list(x) for x in issues_of(Validation(doc))])[:3000])
        return
    if "xprocess" in case:
        env.say(json.dumps(xprocess_issues(ctx.seed, [case["xprocess"]]))[:2000])
        return
    run_history(case, ctx, env.scratch())
