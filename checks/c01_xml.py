"""C01 -- XML save/load is lossless and conforms to odML 1.1.

Monitors (all observe executions of the real writer/reader from the tree under test):
  roundtrip      model(load(save(D))) == strip(model(D)) item by item, for every writer option x
                 reader mode x entry point
  vocabulary     independent lxml parse of the written text walked against models/odml11.py
  strict-silent  XMLReader(ignore_errors=False) accepts plain output with no warning
  representable  a document holding text XML 1.0 cannot carry makes every writer entry point raise
                 and leaves no file; a representable one never makes it raise
  foreign        text produced by models/emit.py (another tool's style) loads to the model
  save-pure      saving does not change the saved document
"""
import io
import os
import warnings

from vlib import core, gen, model, classify
from vlib.model import enc, dec
from models import odml11, emit

PROPERTY = "C01"
LEVEL = "exploration"
SHARDS = {"quick": 8, "thorough": 16}
RULE = ("seeded generator of valid documents (vlib/gen.py: all dtypes, 0..4 values, hostile text pool, all "
        "optional attributes, all cardinality shapes) x writer options x reader modes x entry points, plus an "
        "exhaustively enumerated value-shape lattice and foreign-emitter files; a case is non-trivial when "
        "the document has a multi-valued Property, a hostile text, a cardinality or a tuple; distinct = hash "
        "of the document spec with ids removed")
ASSUMPTIONS = [
    "text is compared after str.strip() of every string leaf, as the statement allows",
    "attributes set to '' or whitespace-only count as unset and are not generated",
    "sibling names are unique after trimming",
    "lxml is trusted for the independent well-formedness parse of the written file",
]
REQUIRED_MONITORS = ["instance-reuse", "roundtrip", "vocabulary", "strict-silent", "representable", "foreign", "save-pure"]

CUSTOM_TEMPLATE = '<xsl:template match="odML"><html><body><xsl:value-of select="author"/></body></html></xsl:template>'
OPTS = {"plain": {}, "local_style": {"local_style": True}, "custom_template": {"custom_template": CUSTOM_TEMPLATE}}


def strip_model(m):
    m = model.map_strings(m, lambda s: s.strip())
    if m.get("k") == "doc" and m.get("version") is not None:
        # the document version is free text in the XML form; a number given as version is compared
        # by its text
        m["version"] = str(m["version"])
    # likewise the uncertainty: the constructor keeps whatever it is given (the repository's own tests
    # rely on free text such as '+-12' surviving), the XML form is text, so it is compared by its text
    for _, n in model.walk(m):
        if n["k"] == "prop" and n.get("uncertainty") is not None:
            n["uncertainty"] = str(n["uncertainty"])
    return m


def suspect(spec):
    """Coarse cause tag for a reader that rejects the library's own output."""
    for _, n in model.walk(spec):
        if n["k"] == "prop" and (n["dtype"] or "").endswith("-tuple"):
            for v in n["values"]:
                if any(set(x) & set(",;()[]") for x in v):
                    return "tuple-element-with-syntax-char"
    return "other"


def no_ids(m):
    out = {k: v for k, v in m.items() if k not in ("id", "sections", "properties")}
    for lst in ("sections", "properties"):
        if lst in m:
            out[lst] = [no_ids(c) for c in m[lst]]
    return out


def nontrivial(spec):
    for _, n in model.walk(spec):
        if n["k"] == "prop":
            if len(n["values"]) > 1 or n["val_cardinality"] or (n["dtype"] or "").endswith("-tuple"):
                return True
            for v in n["values"]:
                if isinstance(v, str) and classify.text_shape(v) != "plain":
                    return True
        if n["k"] == "sec" and (n["sec_cardinality"] or n["prop_cardinality"]):
            return True
    return False


def all_strings(m):
    for _, n in model.walk(m):
        for k, v in n.items():
            if isinstance(v, str):
                yield v
            elif k == "values":
                for x in v:
                    if isinstance(x, str):
                        yield x
                    elif isinstance(x, list):
                        for y in x:
                            if isinstance(y, str):
                                yield y


def vocabulary_problems(text, stylesheet):
    """Independent walk of the written text against the odML 1.1 tables."""
    from lxml import etree
    probs = []
    try:
        root = etree.fromstring(text.encode("utf-8"), etree.XMLParser(remove_comments=True,
                                                                      resolve_entities=False))
    except Exception as exc:
        return ["not well-formed XML: %s" % str(exc)[:100]]
    if root.tag != "odML":
        return ["root is <%s>" % root.tag]
    if root.attrib.get("version") != odml11.FORMAT_VERSION:
        probs.append("version attribute is %r" % root.attrib.get("version"))
    if set(root.attrib) - {"version"}:
        probs.append("extra root attributes %s" % sorted(root.attrib))
    foreign = 0

    def walk(el):
        nonlocal foreign
        allowed = odml11.XML_CHILDREN[el.tag]
        seen = set()
        for ch in el:
            if not isinstance(ch.tag, str):
                continue
            if ch.tag == "{%s}stylesheet" % odml11.XSL_NS and el is root:
                foreign += 1
                continue
            if ch.tag not in allowed:
                probs.append("<%s> inside <%s>" % (ch.tag, el.tag))
                continue
            if ch.attrib:
                probs.append("attributes on <%s>" % ch.tag)
            if ch.tag in odml11.XML_CONTAINERS:
                walk(ch)
            else:
                if ch.tag in seen:
                    probs.append("<%s> repeated inside <%s>" % (ch.tag, el.tag))
                seen.add(ch.tag)
                if len(ch):
                    probs.append("<%s> has child elements" % ch.tag)
        for req in odml11.XML_REQUIRED[el.tag]:
            if req not in seen:
                probs.append("<%s> lacks <%s>" % (el.tag, req))
    walk(root)
    if stylesheet and foreign != 1:
        probs.append("expected exactly one embedded stylesheet element, saw %d" % foreign)
    if not stylesheet and foreign:
        probs.append("foreign stylesheet element in plain output")
    return probs


def write_and_read(doc, entry, opt, mode, sdir, tag):
    """Returns (text_written, loaded_doc, reader_warnings, path_or_None).  Raises what the library raises
    wrapped as ('write', exc) / ('read', exc)."""
    import odml
    from odml.tools.odmlparser import ODMLWriter, ODMLReader
    from odml.tools.xmlparser import XMLWriter, XMLReader
    path = os.path.join(sdir, "c01_%s.xml" % tag)
    if os.path.exists(path):
        os.remove(path)
    lenient = (mode == "lenient")
    warns = None
    try:
        if entry == "odmlwriter-string":
            text = ODMLWriter("XML").to_string(doc)
        elif entry == "xmlwriter-str":
            text = str(XMLWriter(doc))
        elif entry == "save-load":
            odml.save(doc, path, **OPTS[opt])
        elif entry == "xmlwriter-file":
            XMLWriter(doc).write_file(path, **OPTS[opt])
        elif entry == "odmlwriter-file":
            ODMLWriter("XML").write_file(doc, path, **OPTS[opt])
        else:
            raise AssertionError(entry)
    except Exception as exc:
        return ("write-raised", exc, os.path.exists(path))
    try:
        if entry == "odmlwriter-string":
            rd = XMLReader(ignore_errors=lenient, show_warnings=False)
            loaded = rd.from_string(text)
            warns = rd.warnings
        elif entry == "xmlwriter-str":
            loaded = ODMLReader("XML", show_warnings=False).from_string(text)
        else:
            with io.open(path, encoding="utf-8") as f:
                text = f.read()
            if entry == "save-load":
                loaded = odml.load(path, show_warnings=False)
            elif entry == "xmlwriter-file":
                rd = XMLReader(ignore_errors=lenient, show_warnings=False)
                loaded = rd.from_file(path)
                warns = rd.warnings
            else:
                rd = XMLReader(ignore_errors=lenient, show_warnings=False)
                loaded = rd.from_file(io.open(path, "rb"))
                warns = rd.warnings
    except Exception as exc:
        return ("read-raised", exc, text)
    return ("ok", text, loaded, warns)


ENTRIES = ["odmlwriter-string", "xmlwriter-str", "save-load", "xmlwriter-file", "odmlwriter-file"]


def configs():
    out = []
    for entry in ENTRIES:
        file_entry = entry in ("save-load", "xmlwriter-file", "odmlwriter-file")
        for opt in (OPTS if file_entry else ["plain"]):
            modes = ["strict", "lenient"] if entry in ("odmlwriter-string", "xmlwriter-file", "odmlwriter-file") \
                else ["lenient" if entry == "save-load" else "strict"]
            for mode in modes:
                if opt != "plain" and mode == "strict":
                    continue  # the embedded stylesheet is only promised to load through odml.load / lenient
                out.append((entry, opt, mode))
    return out


CONFIGS = configs()


def run_case(case, ctx, sdir):
    """case: {"spec": encoded doc spec, "configs": [[entry,opt,mode],...] or None, "kind": ...}"""
    rec = ctx.rec
    spec = dec(case["spec"])
    kind = case.get("kind", "generated")
    rec.evaluation()
    with warnings.catch_warnings():
        warnings.simplefilter("ignore")
        try:
            doc = gen.build_doc(spec)
        except Exception as exc:
            rec.outcome("build-refused:%s" % type(exc).__name__)
            rec.case(None, False)
            return
        before = model.model_of(doc)
        exp = strip_model(before)
        # three zones: every raw string fine -> must be written; some string unrepresentable even after
        # trimming -> must raise; in between (only the trimmed-away part is unrepresentable) -> don't care
        representable = all(odml11.xml_representable(s) for s in all_strings(before))
        unrepresentable = not all(odml11.xml_representable(s.strip()) for s in all_strings(before))
        rec.case(core.h(enc(no_ids(spec))), nontrivial(spec))
        rec.count("kind", kind)
        for entry, opt, mode in (case.get("configs") or CONFIGS):
            cfg = "%s|%s|%s" % (entry, opt, mode)
            res = write_and_read(doc, entry, opt, mode, sdir, "w")
            rec.count("config", cfg)
            rec.monitor("representable")
            witness = dict(case, configs=[[entry, opt, mode]])
            if res[0] == "write-raised":
                rec.outcome("write-raised:%s" % type(res[1]).__name__)
                if representable:
                    rec.violation("xml/writer-raised-on-representable:%s" % type(res[1]).__name__,
                                  "%s: writer raised %r for a representable document" % (cfg, res[1]), witness)
                elif res[2] and entry != "odmlwriter-string" and entry != "xmlwriter-str":
                    rec.violation("xml/unrepresentable/file-left-behind",
                                  "%s: writer raised %r but a file exists" % (cfg, res[1]), witness)
                continue
            if not representable and not unrepresentable:
                rec.outcome("representability-dont-care")
                continue
            if unrepresentable:
                rec.violation("xml/unrepresentable/written",
                              "%s: document with text outside XML 1.0 was written without an exception" % cfg,
                              witness)
                continue
            if res[0] == "read-raised":
                rec.outcome("read-raised:%s" % type(res[1]).__name__)
                rec.violation("xml/tuple-element-with-syntax-char" if suspect(spec) != "other" else
                              "xml/own-output-rejected:%s:%s" % (mode, type(res[1]).__name__),
                              "%s: reader raised %r on the library's own output" % (cfg, str(res[1])[:200]),
                              witness)
                continue
            _, text, loaded, warns = res
            rec.outcome("roundtrip-ok")
            # vocabulary
            rec.monitor("vocabulary")
            for p in vocabulary_problems(text, opt != "plain"):
                rec.violation("xml/vocabulary:%s" % p.split(" (")[0][:60], "%s: %s" % (cfg, p), witness)
            # strict reader silent
            if mode == "strict" and warns is not None:
                rec.monitor("strict-silent")
                if warns:
                    rec.violation("xml/strict-reader-warned", "%s: %r" % (cfg, warns[:2]), witness)
            # round trip
            rec.monitor("roundtrip")
            obs = strip_model(model.model_of(loaded))
            for item in model.diff(exp, obs):
                key = classify.classify_item(item, "xml")
                rec.violation(key, "%s: %s.%s expected %r got %r" % (
                    cfg, item["path"], item["field"], item["exp"], item["obs"]), witness)
            # purity of save
            rec.monitor("save-pure")
            after = model.model_of(doc)
            if model.diff(before, after):
                rec.violation("xml/save-mutates-document", "%s: %r" % (cfg, model.diff(before, after)[:2]),
                              witness)


def restate_dtypes(normal, spec, rec=None):
    """The foreign tool states the dtype the *specification* names, not the one the library made of it when the
    document was built (a library that silently turns a stated '12-tuple' into 'string' must not thereby change
    what the foreign file says).  Both trees have the same shape; a no-op when the library keeps stated dtypes."""
    for a, b in zip(normal.get("sections", []), spec.get("sections", [])):
        restate_dtypes(a, b, rec)
    for a, b in zip(normal.get("properties", []), spec.get("properties", [])):
        if b.get("dtype") is not None and a.get("dtype") != b["dtype"] and len(a.get("values") or []) == len(b.get("values") or []):
            a["dtype"], a["values"] = b["dtype"], list(b["values"])
            if rec is not None:
                rec.count("foreign", "dtype restated from the specification")


def run_foreign(case, ctx):
    """XML written to the 1.1 vocabulary by another tool loads to the document it describes."""
    from odml.tools.xmlparser import XMLReader
    rec = ctx.rec
    spec = dec(case["spec"])
    rng = ctx.rng("foreign", case.get("i", 0))
    rec.evaluation()
    text = emit.xml_from_model(spec, rng if case.get("shuffle", True) else None)
    exp = strip_model(spec)
    rec.case(core.h(["foreign", enc(no_ids(spec))]), True)
    rec.count("kind", "foreign")
    for mode in ("strict", "lenient"):
        rd = XMLReader(ignore_errors=(mode == "lenient"), show_warnings=False)
        rec.monitor("foreign")
        with warnings.catch_warnings():
            warnings.simplefilter("ignore")
            try:
                loaded = rd.from_string(text.split("?>", 1)[1])
            except Exception as exc:
                rec.violation("xml/foreign/rejected:%s:%s" % (mode, type(exc).__name__),
                              "%s reader raised %r on foreign 1.1 XML" % (mode, str(exc)[:200]),
                              dict(case, text=text))
                continue
        if mode == "strict" and rd.warnings:
            rec.violation("xml/foreign/strict-reader-warned", repr(rd.warnings[:2]), dict(case, text=text))
        obs = strip_model(model.model_of(loaded))
        for item in model.diff(exp, obs):
            key = classify.classify_item(item, "xml-foreign")
            rec.violation(key, "%s: %s.%s expected %r got %r" % (
                mode, item["path"], item["field"], item["exp"], item["obs"]), dict(case, text=text))
    # the same file as other tools store it: correctly declared UTF-16 / ISO-8859-1, UTF-8 with a byte order mark
    if case.get("i", 0) % 4 == 0 and text.startswith('<?xml version="1.0" encoding="UTF-8"?>'):
        import odml
        from vlib import env
        body = text.split("?>", 1)[1]
        for enc_name, data in (("utf-16", None), ("iso-8859-1", None), ("utf-8-sig", None)):
            try:
                decl = '<?xml version="1.0" encoding="%s"?>' % {"utf-8-sig": "UTF-8"}.get(enc_name, enc_name.upper())
                data = (decl + body).encode(enc_name)
            except UnicodeEncodeError:
                rec.count("foreign-file-encoding", enc_name + ":content-not-in-this-encoding")
                continue
            path = os.path.join(env.scratch(), "c01_foreign_%d.xml" % os.getpid())
            with open(path, "wb") as f:
                f.write(data)
            rec.monitor("foreign-file-encoding")
            rec.count("foreign-file-encoding", enc_name)
            with warnings.catch_warnings():
                warnings.simplefilter("ignore")
                try:
                    loaded = odml.load(path, show_warnings=False)
                except Exception as exc:
                    rec.violation("xml/foreign/file-in-%s-rejected:%s" % (enc_name, type(exc).__name__), str(exc)[:200],
                                  dict(case, text=text, encoding=enc_name))
                    continue
            d_ = model.diff(exp, strip_model(model.model_of(loaded)))
            if d_:
                rec.violation("xml/foreign/file-in-%s-differs:%s" % (enc_name, d_[0]["field"]), repr(d_[:1])[:300],
                              dict(case, text=text, encoding=enc_name))


def foreign_safe(spec):
    """Restrict a generated spec to what the foreign emitter states unambiguously: the 1.1 format gives
    no quoting rule for a *single* value wrapped in [ ], so such values get a second value."""
    import copy
    spec = copy.deepcopy(spec)
    for _, n in model.walk(spec):
        if n["k"] == "prop":
            n["values"] = [v for v in n["values"]
                           if not (isinstance(v, float) and v != v)]
            if len(n["values"]) == 1 and isinstance(n["values"][0], str):
                v = n["values"][0].strip()
                if (v.startswith("[") and v.endswith("]")) or v == "":
                    n["values"] = n["values"] + ["second"]
            if n["dtype"] and n["dtype"].endswith("-tuple"):
                n["values"] = [[x.strip() or "e" for x in v] for v in n["values"]
                               if all(not set(x) & set(",;()[]\"") for x in v)]
    return spec


SPECIALS = {"comma": ",", "dquote": '"', "lbr": "[", "rbr": "]", "nl": "\n", "lead": " ", "empty": None,
            "squote": "'", "semi": ";"}


def lattice_cases():
    """Value-shape lattice: lists of 1..3 text values, one special character class placed at each
    (value position) x (start, inside, end)."""
    cases = []
    for n in (1, 2, 3):
        for vpos in range(n):
            for cname, ch in SPECIALS.items():
                for where in ("start", "inside", "end"):
                    vals = ["v%d" % i for i in range(n)]
                    if ch is None:
                        if where != "start":
                            continue
                        vals[vpos] = ""
                    elif where == "start":
                        vals[vpos] = ch + "ab"
                    elif where == "inside":
                        vals[vpos] = "a" + ch + "b"
                    else:
                        vals[vpos] = "ab" + ch
                    for dtype in ("string", "text"):
                        cases.append((n, vpos, cname, where, dtype, vals))
    return cases


def lattice_spec(vals, dtype, idx):
    import random
    rng = random.Random(idx)
    return {"k": "doc", "id": gen.new_id(rng), "author": None, "version": None, "date": None,
            "repository": None,
            "sections": [{"k": "sec", "id": gen.new_id(rng), "name": "s", "type": "t", "definition": None,
                          "reference": None, "repository": None, "link": None, "include": None,
                          "sec_cardinality": None, "prop_cardinality": None, "sections": [],
                          "properties": [{"k": "prop", "id": gen.new_id(rng), "name": "p", "dtype": dtype,
                                          "values": vals, "unit": None, "uncertainty": None,
                                          "reference": None, "definition": None, "dependency": None,
                                          "dependency_value": None, "value_origin": None,
                                          "val_cardinality": None}]}]}


def inject_unrepresentable(spec, rng):
    bad = rng.choice(gen.XML_UNREPRESENTABLE)
    nodes = [n for _, n in model.walk(spec) if n["k"] in ("sec", "prop")]
    if not nodes:
        return False
    n = rng.choice(nodes)
    if n["k"] == "prop" and rng.random() < 0.6:
        n["dtype"] = "string"
        n["values"] = ["ok", bad]
    elif rng.random() < 0.5:
        n["definition"] = "d" + bad
    else:
        n["name"] = n["name"] + bad
    return True



def edit_doc(doc, rng):
    """A few public-API edits that change what a second write must contain."""
    import odml
    secs = list(doc.itersections())
    s = rng.choice(secs)
    odml.Property("reuse_added_%d" % rng.randrange(10 ** 6), values=[rng.randrange(100)], parent=s)
    if rng.random() < 0.7:
        s.definition = "edited definition %d" % rng.randrange(10 ** 6)
    props = [p for x in secs for p in x.properties if p.dtype == "int" and p.values]
    if props:
        rng.choice(props).append(rng.randrange(10 ** 6))
    doc.author = "edited author"


def reuse_after_refusal(rec, case, fmt, doc):
    """A writer instance that has refused an invalid document still writes a valid one (as a fresh writer does)."""
    import odml
    from vlib import env
    from odml.tools.odmlparser import ODMLWriter
    bad = odml.Document()
    s1 = odml.Section("a", "t", parent=bad)
    s2 = s1.clone(keep_id=True)
    s2.name = "b"
    bad.append(s2)                      # two Sections with one id: must not be written
    sdir = env.scratch()
    p1, p2 = os.path.join(sdir, "reuse_refused_a.%s" % fmt.lower()), os.path.join(sdir, "reuse_refused_b.%s" % fmt.lower())
    w = ODMLWriter(fmt)
    try:
        w.write_file(bad, p1)
        return                          # judged by C07
    except Exception:
        pass
    rec.monitor("instance-reuse")
    try:
        ODMLWriter(fmt).write_file(doc, p2)
    except Exception:
        return                          # the document itself is refused, by any writer
    try:
        w.write_file(doc, p1)
    except Exception as exc:
        rec.violation("%s/instance-reuse/writer-that-refused-once-refuses-a-valid-document:%s" % (fmt.lower(), type(exc).__name__),
                      str(exc)[:200], dict(case, reuse=fmt))
        return
    with open(p1, "rb") as f1, open(p2, "rb") as f2:
        if f1.read() != f2.read():
            rec.violation("%s/instance-reuse/file-differs-from-a-fresh-writers" % fmt.lower(), "", dict(case, reuse=fmt))


def run_reuse(case, ctx, fmts, strip):
    """One writer (and one reader) instance used twice: the second result must describe the edited document."""
    import random
    from odml.tools.odmlparser import ODMLWriter, ODMLReader
    rec = ctx.rec
    spec = dec(case["spec"])
    with warnings.catch_warnings():
        warnings.simplefilter("ignore")
        try:
            doc = gen.build_doc(spec)
        except Exception:
            return
        for fmt in fmts:
            rec.monitor("instance-reuse")
            rec.evaluation()
            rng = random.Random("reuse|%s|%s" % (case.get("i"), fmt))
            reuse_after_refusal(rec, case, fmt, doc)
            try:
                w = ODMLWriter(fmt)
                r = ODMLReader(fmt, show_warnings=False)
                first = w.to_string(doc)
                m_first = strip(model.model_of(doc))
                l1 = r.from_string(first)
                edit_doc(doc, rng)
                second = w.to_string(doc)
                l2 = r.from_string(second)
            except Exception as exc:
                rec.count("reuse-skipped", type(exc).__name__)
                continue
            exp = strip(model.model_of(doc))
            if l1 is None or l2 is None:
                continue
            if fmt == "XML":
                # the low-level reader as well: one XMLReader reads the same text twice and then the edited one
                from odml.tools.xmlparser import XMLReader
                for lenient in (False, True):
                    try:
                        xr = XMLReader(ignore_errors=lenient, show_warnings=False)
                        a, b, c = xr.from_string(first), xr.from_string(first), xr.from_string(second)
                        fresh = XMLReader(ignore_errors=lenient, show_warnings=False).from_string(second)
                    except Exception as exc:
                        rec.violation("xml/instance-reuse/xmlreader-%s-raised-%s" % ("lenient" if lenient else "strict", type(exc).__name__),
                                      str(exc)[:150], dict(case, reuse=fmt))
                        continue
                    if model.diff(model.model_of(a), model.model_of(b)):
                        rec.violation("xml/instance-reuse/xmlreader-second-read-of-the-same-text-differs:%s" % model.diff(
                            model.model_of(a), model.model_of(b))[0]["field"], "", dict(case, reuse=fmt))
                    if model.diff(model.model_of(fresh), model.model_of(c)):
                        rec.violation("xml/instance-reuse/xmlreader-differs-from-a-fresh-reader:%s" % model.diff(
                            model.model_of(fresh), model.model_of(c))[0]["field"], "", dict(case, reuse=fmt))
            first_ok = not model.diff(m_first, strip(model.model_of(l1)))
            d = model.diff(exp, strip(model.model_of(l2)))
            if d and first_ok:
                if not model.diff(m_first, strip(model.model_of(l2))):
                    rec.violation("%s/instance-reuse/second-write-describes-the-document-before-the-edit" % fmt.lower(),
                                  "%r" % d[:2], dict(case, reuse=fmt))
                else:
                    rec.violation("%s/instance-reuse/second-result-differs:%s" % (fmt.lower(), d[0]["field"]), "%r" % d[:2],
                                  dict(case, reuse=fmt))


def run(ctx):
    from vlib import env
    sdir = env.scratch()
    rec = ctx.rec
    ndocs = ctx.pick(1500, 100000)
    lat = lattice_cases()
    rec.extra["lattice_size"] = len(lat) if ctx.shard == 0 else 0
    # 1. value-shape lattice (complete in both tiers; string entry + save/load)
    lat_cfg = [["odmlwriter-string", "plain", "strict"], ["save-load", "plain", "lenient"]]
    for i, (n, vpos, cname, where, dtype, vals) in enumerate(lat):
        if not ctx.mine(i):
            continue
        case = {"kind": "lattice", "spec": enc(lattice_spec(vals, dtype, i)), "configs": lat_cfg,
                "lattice": [n, vpos, cname, where, dtype]}
        run_case(case, ctx, sdir)
        rec.count("lattice", "%d-values:%s" % (n, cname))
    # 2. generated documents x all configurations
    for i in range(ndocs):
        if not ctx.mine(i):
            continue
        rng = ctx.rng("doc", i)
        # rng of a document depends on the index only, not on the shard layout
        rng.seed("C01|%s|doc|%d" % (ctx.seed, i))
        spec = gen.gen_doc(rng, max_nodes=rng.choice([4, 10, 25] if ctx.quick() else [4, 10, 25, 60, 200]),
                           depth=rng.choice([3, 3, 5]), hostile=rng.choice([0.1, 0.5, 0.8]), links=True)
        kind = "generated"
        if rng.random() < 0.06:
            if inject_unrepresentable(spec, rng):
                kind = "unrepresentable"
        case = {"kind": kind, "spec": enc(spec), "i": i}
        if i < 6 and ctx.shard == i % ctx.nshards:
            rec.sample({"kind": kind, "spec": enc(no_ids(spec))} if gen.count_nodes(spec) < 8 else
                       {"kind": kind, "nodes": gen.count_nodes(spec), "first_section": enc(no_ids(spec["sections"][0]))
                        if gen.count_nodes(spec["sections"][0]) < 8 else "(large)"})
        run_case(case, ctx, sdir)
        if kind == "generated" and i % 3 == 0:
            run_reuse(case, ctx, ["XML"], strip_model)
        if kind == "generated":
            # the foreign tool describes the document in its normal form (what the API stores: no
            # sub-second part, naive times), so the model of the built document is emitted
            try:
                with warnings.catch_warnings():
                    warnings.simplefilter("ignore")
                    normal = model.model_of(gen.build_doc(spec))
            except Exception:
                normal = None
            if normal is not None:
                restate_dtypes(normal, gen.normal_form(spec), rec)
                run_foreign({"spec": enc(foreign_safe(normal)), "i": i}, ctx)
        if ctx.time_left() < 0:
            rec.extra["stopped_early_at_doc"] = i
            break


def replay(case, ctx):
    from vlib import env
    if "text" in case:
        run_foreign(case, ctx)
    else:
        run_case(case, ctx, env.scratch())
