"""C08 -- validation reports exactly the issues the documented rules prescribe.

Generated documents are invalidated on purpose at 0-3 spots, then validated as Document, as stand-alone
Section and as stand-alone Property under a logical step budget; the reported issues (object identity,
issue id, rank) are compared as multisets with models/validation.py (three-zone on dependency values)."""
import warnings

from vlib import core, gen, model, budget
from vlib.model import enc, dec
from models import validation as vm

PROPERTY = "C08"
LEVEL = "exploration"
SHARDS = {"quick": 8, "thorough": 16}
RULE = ("seeded documents (vlib/gen.py) + targeted invalidation of 0-3 spots out of {shared ids via keep_id "
        "clones, cleared / n.s. types, cleared names, duplicate sibling names (private assignment), dependencies "
        "naming existing/missing Properties, sub-Section names, int/empty/multi-valued targets, every cardinality "
        "shape, values inconsistent with dtype (private assignment)}; validated as Document, stand-alone Section "
        "and stand-alone Property; then the same Validation instance run again (run_validation, report) after a Section was added "
        "and one removed; non-trivial = at least one invalidation applied; distinct = hash of (document "
        "spec without ids, invalidations, target)")
ASSUMPTIONS = ["rules 400 (terminology), 403 (prototype string check) and 600 (optional) are outside the statement "
               "and ignored", "for a group of k objects sharing an id / a name, exactly k-1 issues on members of "
               "the group are expected; which members is not prescribed",
               "dependency: MUST warn when no sibling Property has that name or the value equals none of its values "
               "(== or text form); MUST NOT when it equals one; several same-named siblings: don't care"]
REQUIRED_MONITORS = ["issues-exact", "terminates", "rerun-exact"]


def nodes_of(doc):
    secs, props = [], []
    queue = list(doc.sections)
    while queue:
        s = queue.pop(0)
        secs.append(s)
        props.extend(list(s.properties))
        queue.extend(list(s.sections))
    return secs, props


DEP_MODES = ["int-vs-float", "float-vs-int", "existing-match", "existing-text-match", "existing-mismatch", "missing", "subsection-name",
             "int-target", "empty-target", "multi-target", "value-none", "self"]
CARDS = [(None, 1), (1, None), (2, 3), (1, 1), (0, 2), (3, None), (None, 4), (2, 2)]


# sibling pairs that are different (name, type) pairs / names, but look alike under a careless comparison
NEAR_DUPS = [(("rec/ephys", "setup"), ("rec", "ephys/setup")), (("ab", "c"), ("a", "bc")), (("x", "T"), ("x ", "T")),
             (("n", "t"), ("N", "t")), (("caf\u00e9", "t"), ("cafe\u0301", "t")), (("s", "t/u"), ("s/t", "u")),
             (("1", "t"), ("01", "t"))]


def gen_muts(rng, doc, n):
    secs, props = nodes_of(doc)
    muts = []
    for _ in range(n):
        kind = rng.choice(["share-id", "share-id-cross-kind", "clear-type", "clear-name", "dup-name", "dependency",
                           "dependency", "card", "bad-values", "empty-name", "near-dup-siblings"])
        if kind == "share-id" and secs:
            muts.append(["share-id", rng.choice(["sec", "prop"]) if props else "sec", rng.randrange(10 ** 6),
                         rng.randrange(10 ** 6)])
        elif kind == "share-id-cross-kind" and secs and props:
            muts.append(["share-id-cross-kind", rng.randrange(10 ** 6), rng.choice(["sec", "doc", "sec-later"]), rng.randrange(10 ** 6)])
        elif kind == "clear-type" and secs:
            muts.append(["clear-type", rng.randrange(len(secs)), rng.choice([None, "", "n.s."])])
        elif kind == "clear-name" and (secs or props):
            muts.append(["clear-name", rng.choice(["sec", "prop"]) if props else "sec", rng.randrange(10 ** 6)])
        elif kind == "dup-name":
            muts.append(["dup-name", rng.choice(["sec", "prop"]), rng.randrange(10 ** 6), rng.random() < 0.5])
        elif kind == "dependency" and props:
            muts.append(["dependency", rng.randrange(len(props)), rng.choice(DEP_MODES)])
        elif kind == "card":
            muts.append(["card", rng.choice(["sec", "prop"]), rng.randrange(10 ** 6),
                         rng.choice(["sec_cardinality", "prop_cardinality"]), enc(rng.choice(CARDS))])
        elif kind == "bad-values" and props:
            muts.append(["bad-values", rng.randrange(len(props)),
                         rng.choice(["int", "float", "boolean", "date", "time", "datetime", "2-tuple", "12-tuple", "wide-ok"])])
        elif kind == "near-dup-siblings":
            muts.append(["near-dup-siblings", rng.randrange(10 ** 6), rng.randrange(len(NEAR_DUPS)), rng.random() < 0.3])
        elif kind == "empty-name" and (secs or props):
            muts.append(["empty-name", rng.choice(["sec", "prop"]) if props else "sec", rng.randrange(10 ** 6)])
    return muts


def apply_muts(doc, muts):
    """Applies the invalidations; returns (applied names, values_expectations)."""
    import odml
    import uuid
    applied, vexp = [], []
    counter = [0]

    def oid():
        # helper objects get reproducible ids (the same document must be rebuilt bit-identically in
        # another process for C19's cross-process comparison)
        counter[0] += 1
        return str(uuid.uuid5(uuid.NAMESPACE_DNS, "verif-helper-%s-%d" % (doc.id, counter[0])))
    for m in muts:
        secs, props = nodes_of(doc)
        name = m[0]
        try:
            if name == "share-id":
                pool = secs if m[1] == "sec" else props
                if not pool or not secs:
                    continue
                src = pool[m[2] % len(pool)]
                dst = secs[m[3] % len(secs)]
                c = src.clone(keep_id=True)
                if m[1] == "sec" and (dst is src or _inside(src, dst)):
                    continue
                lst = dst.sections if m[1] == "sec" else dst.properties
                if c.name in lst:
                    c.name = c.name + "_copy"
                dst.append(c)
            elif name == "share-id-cross-kind":
                if not props or not secs:
                    continue
                p = props[m[1] % len(props)]
                if m[2] == "doc":
                    p.new_id(doc.id)
                else:
                    p.new_id(secs[m[3] % len(secs)].id)
            elif name == "near-dup-siblings":
                cont = ([doc] + secs)[m[1] % (len(secs) + 1)]
                (n1, t1), (n2, t2) = NEAR_DUPS[m[2]]
                if any(x in cont.sections for x in (n1, n2)):
                    continue
                odml.Section(n1, t1, parent=cont, oid=oid())
                odml.Section(n2, t2, parent=cont, oid=oid())
                if m[3] and cont is not doc:
                    for nm in (n1, n2):
                        if nm not in cont.properties:
                            odml.Property(nm, values=[1], parent=cont, oid=oid())
            elif name == "clear-type":
                secs[m[1] % len(secs)].type = m[2]
            elif name == "clear-name":
                pool = secs if m[1] == "sec" else props
                if not pool:
                    continue
                o_ = pool[m[2] % len(pool)]
                if (m[2] // 7) % 2:
                    o_.name = None
                else:
                    o_.name = "".join(list(o_.id))     # the id text given as a name (an equal string, not the same object)
            elif name == "dup-name":
                pool = secs if m[1] == "sec" else props
                cands = [o for o in pool if len(_siblings(o)) > 1]
                if not cands:
                    continue
                o = cands[m[2] % len(cands)]
                sib = [s for s in _siblings(o) if s is not o][0]
                o._name = sib._name                      # private: the public API refuses this
                if m[1] == "sec" and m[3]:
                    o.type = sib.type
            elif name == "dependency":
                p = props[m[1] % len(props)]
                par = p.parent
                mode = m[2]
                sib = [q for q in par.properties if q is not p]
                if mode in ("existing-match", "existing-text-match", "existing-mismatch", "value-none"):
                    if not sib:
                        t = odml.Property("dep_target", values=["v1", "v2"], parent=par, oid=oid())
                    else:
                        t = sib[0]
                    p.dependency = t.name
                    if mode == "value-none":
                        p.dependency_value = None
                    elif mode == "existing-mismatch" or not t.values:
                        p.dependency_value = "certainly-not-a-value-☃"
                    elif mode == "existing-text-match":
                        p.dependency_value = str(t.values[0])
                    else:
                        p.dependency_value = t.values[-1]
                elif mode == "missing":
                    p.dependency = "no-such-property-☃"
                    p.dependency_value = "x"
                    if m[1] % 2 == 0:
                        # ... and the Property is then moved to another Section with insert(): it is judged where it is now
                        other = [s_ for s_ in secs if s_ is not par and p.name not in [q.name for q in s_.properties]]
                        if other:
                            try:
                                other[m[1] % len(other)].insert(0, p)
                            except Exception:
                                pass
                elif mode == "subsection-name":
                    if not len(par.sections):
                        odml.Section("dep_sub", "t", parent=par, oid=oid())
                    p.dependency = par.sections[0].name
                    p.dependency_value = "x"
                elif mode in ("int-vs-float", "float-vs-int"):
                    # a dependency value that equals a value of the target as a number of the other numeric type
                    nm = "dep_" + mode
                    if nm not in par.properties:
                        odml.Property(nm, values=[5.0, 2.5] if mode == "int-vs-float" else [9, 3], parent=par, oid=oid())
                    p.dependency = nm
                    p.dependency_value = 5 if mode == "int-vs-float" else 9.0
                elif mode in ("int-target", "empty-target", "multi-target"):
                    vals = {"int-target": [1, 2], "empty-target": None, "multi-target": ["a", "b", "c"]}[mode]
                    nm = "dep_" + mode
                    if nm not in par.properties:
                        odml.Property(nm, values=vals, parent=par, oid=oid())
                    p.dependency = nm
                    p.dependency_value = {"int-target": 2, "empty-target": "a", "multi-target": "c"}[mode]
                elif mode == "self":
                    p.dependency = p.name
                    p.dependency_value = p.values[0] if p.values else None
            elif name == "card":
                pool = secs if m[1] == "sec" else props
                if not pool:
                    continue
                o = pool[m[2] % len(pool)]
                if m[1] == "sec":
                    setattr(o, m[3], dec(m[4]))
                else:
                    o.val_cardinality = dec(m[4])
            elif name == "bad-values":
                p = props[m[1] % len(props)]
                if m[2] == "wide-ok":
                    # no invalidation: a consistent tuple Property with more than nine elements, built through the API
                    w = odml.Property("wide_tuple_%d" % counter[0], dtype="12-tuple", oid=oid(), parent=p.parent,
                                      values=["(" + ";".join(str(i) for i in range(12)) + ")"])
                    vexp.append(vm.bad_values(w, False))
                    applied.append("wide-ok")
                    continue
                vexp[:] = [v for v in vexp if v["objs"][0] != id(p)]      # (a helper Property may be invalidated later on)
                p._dtype = m[2]                           # private: the public API refuses this (C05)
                p._values = {"2-tuple": [["a", "b", "c"]], "12-tuple": [["a"]]}.get(m[2], ["certainly-not-%s" % m[2]])
                vexp.append(vm.bad_values(p, True))
            elif name == "empty-name":
                pool = secs if m[1] == "sec" else props
                if not pool:
                    continue
                pool[m[2] % len(pool)]._name = ""        # private: the public API falls back to the id
            applied.append(name if name != "dependency" else "dependency:" + m[2])
        except Exception as exc:
            applied.append("%s-refused-%s" % (name, type(exc).__name__))
    return applied, vexp


def _siblings(o):
    par = o.__dict__.get("_parent")
    if par is None:
        return [o]
    return list(par.sections) if model.kind(o) == "sec" else list(par.properties)


def _inside(a, x):
    cur = x
    while cur is not None:
        if cur is a:
            return True
        cur = cur.__dict__.get("_parent")
    return False


def validate_and_compare(rec, root, what, vexp, case, applied):
    from odml.validation import Validation
    exp, dontcare = vm.expectations(root)
    rec.monitor("terminates")
    ok, res, calls = budget.run(lambda: _validate(root), 3000000)
    rec.extra["max_validation_calls"] = max(rec.extra.get("max_validation_calls", 0), calls)
    if not ok:
        rec.violation("validate:%s/does-not-terminate" % what, "budget exceeded", case)
        return
    if isinstance(res, Exception):
        rec.outcome("raised:" + type(res).__name__)
        rec.violation("validate:%s/raised-%s" % (what, type(res).__name__),
                      "validation raised %r (invalidations %s)" % (res, applied), case)
        return
    rec.outcome("returned")
    reported = [(id(e.obj), getattr(e.validation_id, "value", e.validation_id), e.rank) for e in res.errors]
    inscope = {id(o) for o in vm.scope(root)}
    for oid, no, rank in reported:
        if oid not in inscope:
            rec.violation("validate:%s/issue-on-object-outside-scope" % what, "issue %s" % no, case)
    rec.monitor("issues-exact")
    vx = [v for v in vexp if v["objs"][0] in inscope]
    for prob, kind, detail in vm.compare(exp, dontcare, reported, vx):
        rec.violation("validate:%s/%s:%s" % (what, prob, kind), "%s (invalidations %s)" % (detail, applied), case)
    for e in res.errors:
        if e.is_error == e.is_warning:
            rec.violation("validate/rank-neither-error-nor-warning", repr(e.rank), case)
    for kind in {vm.KIND_OF.get(n) for _, n, _ in reported}:
        rec.count("issue-kinds-seen", str(kind))
    if what != "property" and case.get("rerun", True):
        rerun_after_edit(rec, root, res, what, vexp, case, applied)


def rerun_after_edit(rec, root, val, what, vexp, case, applied):
    """The same Validation instance, run again (run_validation, then report) after the tree was edited, reports the
    issues of the tree as it is now."""
    import odml
    import random
    rng = random.Random("rerun|%s" % core.h([case.get("muts"), case.get("target")]))
    try:
        added = odml.Section("rerun_added", "n.s.", parent=root)          # brings a type-unspecified warning
        odml.Property("rerun_prop", values=[1, 2, 3], val_cardinality=(None, 1), parent=added)   # and a cardinality warning
        kids = [s for s in list.__iter__(root.__dict__["_sections"]) if s is not added]
        removed = None
        if kids and rng.random() < 0.6:
            removed = rng.choice(kids)
            root.remove(removed)
    except Exception as exc:
        rec.count("rerun", "edit-refused:" + type(exc).__name__)
        return
    for how in ("run_validation", "report"):
        rec.monitor("rerun-exact")
        try:
            getattr(val, how)()
        except Exception as exc:
            rec.violation("validate:%s/rerun/%s-raised-%s" % (what, how, type(exc).__name__), repr(exc), dict(case, rerun=how))
            return
        exp, dontcare = vm.expectations(root)
        inscope = {id(o) for o in vm.scope(root)}
        reported = [(id(e.obj), getattr(e.validation_id, "value", e.validation_id), e.rank) for e in val.errors]
        for oid, no, rank in reported:
            if oid not in inscope:
                rec.violation("validate:%s/rerun/issue-on-object-no-longer-in-the-tree" % what, "%s: issue %s" % (how, no),
                              dict(case, rerun=how))
        reported = [r for r in reported if r[0] in inscope]
        vx = [v for v in vexp if v["objs"][0] in inscope]
        for prob, kind, detail in vm.compare(exp, dontcare, reported, vx):
            key = "validate:%s/rerun/%s:%s" % (what, prob, kind)
            if (what, prob, kind) == ("section", "missing", "dup-id"):
                key = "validate:section/missing:dup-id"     # same mechanism as on the first run (rule registered for Documents only)
            rec.violation(key, "%s after an edit: %s (invalidations %s)" % (how, detail, applied), dict(case, rerun=how))
        rec.count("rerun", "%s|%s" % (how, "with-removal" if removed is not None else "addition-only"))


def _validate(root):
    from odml.validation import Validation
    try:
        return Validation(root)
    except budget.BudgetExceeded:
        raise
    except Exception as exc:
        return exc


def run_case(case, ctx):
    rec = ctx.rec
    spec = dec(case["spec"])
    rec.evaluation()
    with warnings.catch_warnings():
        warnings.simplefilter("ignore")
        doc = gen.build_doc(spec)
        applied, vexp = apply_muts(doc, case["muts"])
        from checks.c01_xml import no_ids
        rec.case(core.h([enc(no_ids(spec)), case["muts"], case["target"]]), bool(applied))
        for a in applied:
            rec.count("invalidations", a)
        secs, props = nodes_of(doc)
        t = case["target"]
        if t[0] == "doc":
            validate_and_compare(rec, doc, "document", vexp, case, applied)
        elif t[0] == "sec" and secs:
            s = secs[t[1] % len(secs)]
            if t[2] and not vexp:
                try:
                    s = s.clone(keep_id=True)   # detached stand-alone copy
                except Exception:
                    pass  # privately invalidated subtrees (duplicate names) cannot be cloned: use the attached one
            validate_and_compare(rec, s, "section", vexp, case, applied)
        elif t[0] == "prop" and props:
            p = props[t[1] % len(props)]
            validate_and_compare(rec, p, "property", vexp, case, applied)
        rec.count("target", t[0])


def run(ctx):
    rec = ctx.rec
    n = ctx.pick(8000, 600000)
    for i in range(n):
        if not ctx.mine(i):
            continue
        rng = ctx.rng("doc", i)
        rng.seed("C08|%s|%d" % (ctx.seed, i))
        spec = gen.gen_doc(rng, max_nodes=rng.choice([4, 10, 20]), hostile=0.2, tuples=True)
        # muts are generated against the built document's shape, but depend on rng only through sizes
        with warnings.catch_warnings():
            warnings.simplefilter("ignore")
            probe = gen.build_doc(spec)
        muts = gen_muts(rng, probe, rng.choice([0, 1, 1, 2, 3]))
        for target in (["doc"], ["sec", rng.randrange(10 ** 6), rng.random() < 0.3], ["prop", rng.randrange(10 ** 6)]):
            case = {"spec": enc(spec), "muts": muts, "target": target}
            run_case(case, ctx)
        if i < 4:
            rec.sample({"invalidations": muts, "nodes": gen.count_nodes(spec)})
        if ctx.time_left() < 0:
            rec.extra["stopped_early_at"] = i
            break


def replay(case, ctx):
    run_case(case, ctx)
