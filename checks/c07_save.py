"""C07 -- save never writes an invalid document and a failed save harms no file.

Fault enumeration: (document validity) x (serialisation fault) x (format / RDF sub-format) x (target absent /
holding earlier data) x (entry point).  Monitors:
  invalid-refused   a document with >= 1 validation error (models/validation.py, not the library's validator)
                    makes odml.save / ODMLWriter.write_file raise ParserException in every format
  failed-harmless   whenever a save raises: directory listing unchanged, target bytes unchanged and -- from the
                    audit-hook recorder -- no write-mode open / remove / rename of any file at all
  warnings-written  a document with warnings only is written, loads again, and a UserWarning with the report
                    was issued
"""
import builtins
import os
import warnings

from vlib import core, gen, model, fsmon
from vlib.model import enc, dec
from models import validation as vm

PROPERTY = "C07"
LEVEL = "fault_enumeration"
SHARDS = {"quick": 8, "thorough": 16}
RULE = ("grid: document state {valid, warnings only, untyped Section, duplicate ids via keep_id clone (siblings, and "
        "across branches at different depths), duplicate "
        "sibling Section name/type, duplicate sibling Property name} x serialisation fault {none, text XML cannot "
        "hold, text with a lone surrogate, attribute json cannot encode, unsupported RDF format, trix, injected exception in json.dumps / "
        "yaml.dump / Graph.serialize / etree.tounicode, injected failure of the first file.write} x format {XML, "
        "JSON, YAML, RDF xml/turtle/nt/n3/json-ld} x target {absent, holding earlier data} x entry point "
        "{odml.save, ODMLWriter.write_file, XMLWriter.write_file, RDFWriter.write_file}; complete in quick; "
        "thorough repeats it over generated documents; non-trivial = case with an invalid document or a fault; "
        "distinct = hash of the grid cell (+ document spec)")
ASSUMPTIONS = ["'save' in the first sentence = odml.save and ODMLWriter.write_file (the entry points that validate); "
               "XMLWriter.write_file / RDFWriter.write_file are judged for 'a failed save harms no file' only",
               "audit events cover Python-level opens; lxml and rdflib write through Python file objects here"]
REQUIRED_MONITORS = ["invalid-refused", "failed-harmless", "warnings-written"]

RDF_FORMATS = ["xml", "turtle", "nt", "n3", "json-ld"]
PREVIOUS = b"previous content that must survive\n"


class Injected(Exception):
    pass


def base_doc(spec=None):
    import odml
    if spec is not None:
        return gen.build_doc(spec)
    d = odml.Document(author="a", version="1")
    s = odml.Section("s1", "recording", parent=d)
    odml.Property("p1", values=[1, 2], parent=s)
    odml.Property("p2", values=["x"], parent=s, unit="mV")
    s2 = odml.Section("s2", "stimulus", parent=d)
    odml.Section("sub", "cell", parent=s2)
    odml.Property("q", values=[1.5], parent=s2)
    return d


def make_state(doc, state):
    import odml
    secs = list(doc.itersections())
    if state == "valid":
        for s in secs:
            if s.type == "n.s.":
                s.type = "typed"
    elif state == "warnings-only":
        secs[0].type = "n.s."
    elif state == "untyped-section":
        secs[-1].type = None
    elif state == "duplicate-ids":
        c = secs[0].clone(keep_id=True)
        c.name = c.name + "_copy"
        doc.append(c)
    elif state in ("duplicate-ids-cross-branch-prop", "duplicate-ids-cross-branch-sec"):
        # the two objects sharing an id live in different branches at different depths
        want_prop = state.endswith("prop")
        deep = [s for s in secs if s.parent is not doc]
        src_sec = deep[0] if deep else secs[0]
        if want_prop:
            props = [p for s in secs for p in s.properties if s is not secs[-1]]
            src = props[0] if props else odml.Property("only", values=[1], parent=secs[0])
        else:
            src = src_sec
        # destination: a Section outside the source's branch, at another depth when possible
        def top(o):
            while o.parent is not doc:
                o = o.parent
            return o
        others = [s for s in secs if top(s) is not top(src if not want_prop else src.parent)]
        if not others:
            others = [odml.Section("other_branch", "t", parent=doc)]
        dst = sorted(others, key=lambda s: len(s.get_path()))[-1]
        c = src.clone(keep_id=True)
        c.name = c.name + "_copy"
        dst.append(c)
    elif state in ("duplicate-ids-prop-equals-section", "duplicate-ids-prop-equals-document"):
        # objects of different kinds share an id (public API: new_id accepts any valid id)
        props = [p for s in secs for p in s.properties]
        p = props[-1] if props else odml.Property("only", values=[1], parent=secs[-1])
        if state.endswith("document"):
            p.new_id(doc.id)
        else:
            other = [s for s in secs if s is not p.parent]
            p.new_id((other[0] if other else secs[0]).id)
    elif state == "duplicate-ids-document-spelled-differently":
        # the Document is given the id of one of its Properties / Sections in another accepted spelling
        objs = [p for s in secs for p in s.properties] + secs
        oid = objs[len(secs) % len(objs)].id
        doc.new_id([oid.upper(), "{%s}" % oid, "urn:uuid:" + oid, oid.replace("-", "")][(len(secs) + 1) % 4])
    elif state == "duplicate-ids-spelled-differently":
        # the id of another object handed to new_id in another accepted spelling (upper case, braces, urn, no hyphens)
        props = [p for s in secs for p in s.properties]
        p = props[-1] if props else odml.Property("only", values=[1], parent=secs[-1])
        other = [s for s in secs if s is not p.parent]
        oid = (other[0] if other else secs[0]).id
        spelled = [oid.upper(), "{%s}" % oid, "urn:uuid:" + oid, oid.replace("-", "")][len(secs) % 4]
        p.new_id(spelled)
    elif state in ("many-warnings-then-error", "many-errors"):
        # a long issue list: 130 Sections that each draw a warning ahead of the one error / 30 errors
        for i in range(130 if state.startswith("many-warnings") else 30):
            s_ = odml.Section("bulk%03d" % i, "n.s." if state.startswith("many-warnings") else "t")
            doc.insert(0, s_)
            if state == "many-errors":
                s_.type = None
        last = odml.Section("zz_last", "t", parent=doc)
        last.type = None
    elif state == "duplicate-section":
        c = odml.Section("tmpname", secs[0].type, parent=secs[0].parent)
        c._name = secs[0].name
    elif state == "duplicate-property":
        props = [p for s in secs for p in s.properties]
        if not props:
            props = [odml.Property("only", values=[1], parent=secs[0])]
        p = odml.Property("tmpname", values=[1], parent=props[0].parent)
        p._name = props[0].name
    return doc


STATES = ["valid", "warnings-only", "untyped-section", "duplicate-ids", "duplicate-ids-cross-branch-prop",
          "duplicate-ids-cross-branch-sec", "duplicate-ids-prop-equals-section", "duplicate-ids-prop-equals-document",
          "duplicate-ids-spelled-differently", "duplicate-ids-document-spelled-differently", "duplicate-section", "duplicate-property", "many-warnings-then-error", "many-errors"]


def faults_for(fmt):
    f = ["none", "inject:first-write", "lone-surrogate-text"]
    if fmt == "XML":
        f += ["xml-unrepresentable-text", "inject:tounicode"]
    elif fmt == "JSON":
        f += ["json-unencodable-attribute", "inject:json.dumps"]
    elif fmt == "YAML":
        f += ["inject:yaml.dump"]
    else:
        f += ["rdf-unsupported-format", "rdf-trix", "inject:Graph.serialize"]
    return f


def entries_for(fmt):
    e = ["odml.save", "ODMLWriter.write_file"]
    if fmt == "XML":
        e.append("XMLWriter.write_file")
        # the XML writer's non-default header options
        e += ["odml.save:local_style", "ODMLWriter.write_file:custom_template", "XMLWriter.write_file:local_style",
              "XMLWriter.write_file:custom_template"]
    if fmt.startswith("RDF"):
        e.append("RDFWriter.write_file")
    return e


class FailingFile(object):
    def __init__(self, f):
        self._f = f

    def write(self, data):
        raise Injected("injected failure of file.write")

    def __getattr__(self, n):
        return getattr(self._f, n)

    def __enter__(self):
        self._f.__enter__()
        return self

    def __exit__(self, *a):
        return self._f.__exit__(*a)


def do_save(doc, fmt, sub, entry, fault, path):
    """Runs one save with the fault armed.  Returns the exception or None."""
    import json
    import yaml
    import odml
    import rdflib
    from odml.tools import xmlparser, odmlparser
    from odml.tools.odmlparser import ODMLWriter
    from odml.tools.xmlparser import XMLWriter
    from odml.tools.rdf_converter import RDFWriter
    kw = {}
    backend = "RDF" if fmt.startswith("RDF") else fmt
    if backend == "RDF":
        kw["rdf_format"] = sub
        if fault == "rdf-unsupported-format":
            kw["rdf_format"] = "no-such-format"
        elif fault == "rdf-trix":
            kw["rdf_format"] = "trix"
    undo = []
    calls = {"n": 0}

    def patch(obj, name, repl):
        orig = getattr(obj, name)
        setattr(obj, name, repl)
        undo.append((obj, name, orig))

    def raiser(*a, **k):
        raise Injected("injected serialisation failure")
    if fault == "inject:json.dumps":
        patch(json, "dumps", raiser)
    elif fault == "inject:yaml.dump":
        patch(yaml, "dump", raiser)
    elif fault == "inject:Graph.serialize":
        patch(rdflib.Graph, "serialize", raiser)
    elif fault == "inject:tounicode":
        class ETProxy(object):
            def __getattr__(self, n):
                if n == "tounicode":
                    return raiser
                return getattr(xmlparser.ET, n)
        real = xmlparser.ET
        proxy = ETProxy()
        proxy.__dict__["_real"] = real
        ETProxy.__getattr__ = lambda self, n: raiser if n == "tounicode" else getattr(real, n)
        patch(xmlparser, "ET", proxy)
    elif fault == "inject:first-write":
        real_open = builtins.open

        def fake_open(file, mode="r", *a, **k):
            f = real_open(file, mode, *a, **k)
            if isinstance(file, str) and os.path.abspath(file) == os.path.abspath(path) and "w" in mode:
                return FailingFile(f)
            return f
        patch(builtins, "open", fake_open)
    try:
        entry, _, opt = entry.partition(":")
        if opt == "local_style":
            kw["local_style"] = True
        elif opt == "custom_template":
            kw["custom_template"] = "<xsl:template match=\"odML\"><p>custom</p></xsl:template>"
        if entry == "odml.save":
            odml.save(doc, path, backend, **kw)
        elif entry == "ODMLWriter.write_file":
            ODMLWriter(backend).write_file(doc, path, **kw)
        elif entry == "XMLWriter.write_file":
            XMLWriter(doc).write_file(path, **kw)
        else:
            RDFWriter(doc).write_file(path, kw["rdf_format"])
    except Exception as exc:
        return exc
    finally:
        for obj, name, orig in reversed(undo):
            setattr(obj, name, orig)
    return None


def run_cell(ctx, cell, sdir, spec=None):
    from odml.tools.parser_utils import ParserException
    import odml
    rec = ctx.rec
    state, fmt, sub, fault, target, entry = cell
    case = {"cell": list(cell), "spec": enc(spec) if spec else None}
    rec.evaluation()
    rec.case(core.h(case), state not in ("valid", "warnings-only") or fault != "none")
    with warnings.catch_warnings(record=True) as wlist:
        warnings.simplefilter("always")
        try:
            doc = make_state(base_doc(spec), state)
        except Exception as exc:
            rec.outcome("build-refused:" + type(exc).__name__)
            return
        if fault == "xml-unrepresentable-text":
            odml.Property("bad", values=["a\x00b", "ok"], parent=list(doc.itersections())[0])
        if fault == "json-unencodable-attribute":
            doc.version = {1, 2}
        if fault == "lone-surrogate-text":
            # e.g. os.fsdecode(b"rec_\xe9.dat"): text the file encoder may refuse at write time
            odml.Property("surrogate", values=["rec_\udce9.dat"], parent=list(doc.itersections())[0])
        exp, _ = vm.expectations(doc)
        has_error = any(e["rank"] == vm.ERROR for e in exp)
        has_warning = any(e["rank"] == vm.WARNING for e in exp)
        wdir = os.path.join(sdir, "c07dir")
        if os.path.isdir(wdir):
            for f in os.listdir(wdir):
                os.remove(os.path.join(wdir, f))
        else:
            os.makedirs(wdir)
        ext = {"XML": "xml", "JSON": "json", "YAML": "yaml"}.get(fmt) or \
            {"xml": "rdf", "turtle": "ttl", "nt": "nt", "n3": "n3", "json-ld": "jsonld"}[sub]
        if fault in ("rdf-unsupported-format",):
            ext = "rdf"
        if fault == "rdf-trix":
            ext = "rdf"
        path = os.path.join(wdir, "target." + ext)
        with open(os.path.join(wdir, "bystander.txt"), "wb") as f:
            f.write(b"bystander\n")
        if target == "existing":
            with open(path, "wb") as f:
                f.write(PREVIOUS)
        before = fsmon.tree_state(wdir)
        with fsmon.Recording() as fs:
            exc = do_save(doc, fmt, sub, entry, fault, path)
        after = fsmon.tree_state(wdir)
    cfg = "%s|%s|%s" % (fmt if not sub else "RDF:" + sub, entry, target)
    rec.count("grid", "%s / %s / %s" % (state, fault, "raised" if exc is not None else "returned"))
    validating = entry.partition(":")[0] in ("odml.save", "ODMLWriter.write_file")
    # (a) invalid documents are refused with ParserException
    if has_error and validating:
        rec.monitor("invalid-refused")
        if exc is None:
            rec.violation("invalid-written:%s:%s" % (state, fmt), "%s: document with validation errors was written" % cfg, case)
        elif not isinstance(exc, ParserException):
            rec.violation("invalid-refused-with-%s:%s" % (type(exc).__name__, state), "%s: %r" % (cfg, exc), case)
    # (b) a failed save harms no file
    if exc is not None:
        rec.outcome("raised:" + type(exc).__name__)
        rec.monitor("failed-harmless")
        cause = "invalid-document" if (has_error and validating) else fault
        if before != after:
            changed = sorted(set(before.items()) ^ set(after.items()))
            what = "created" if len(after) > len(before) else ("content-lost" if target == "existing" else "changed")
            key = "failed-save/%s/target-%s:%s" % (cause, what, fmt)
            if cause == "inject:first-write":
                key = "failed-save/io-error-during-write/target-%s" % what   # one mechanism for all formats
            rec.violation(key,
                          "%s raised %r but the directory changed: %r" % (cfg, exc, [c[0] for c in changed][:3]), case)
        w = fs.writes_under(wdir)
        if w and before == after:
            rec.violation("failed-save/%s/write-event-before-failure:%s" % (cause, fmt),
                          "%s raised %r after %r" % (cfg, exc, w[:2]), case)
        return
    rec.outcome("returned")
    if fault not in ("none", "lone-surrogate-text") and fault != "json-unencodable-attribute":
        rec.violation("fault-not-effective:%s" % fault, "%s: the armed fault did not make the save fail" % cfg, case)
    # (c) written documents exist, load, and warnings are reported
    if not has_error or not validating:
        rec.monitor("warnings-written")
        real = path if os.path.exists(path) else None
        if real is None:
            rec.violation("written-file-missing:%s" % fmt, "%s returned but %s does not exist (%r)" % (cfg, path, sorted(after)), case)
            return
        if has_warning and validating and state == "warnings-only":
            msgs = [str(w.message) for w in wlist if issubclass(w.category, UserWarning)]
            if not any("Validation found" in m or "unresolved issues" in m for m in msgs):
                rec.violation("warnings-not-reported:%s" % fmt, "%s: no UserWarning carrying the validation report" % cfg, case)
        if not has_error:
            try:
                with warnings.catch_warnings():
                    warnings.simplefilter("ignore")
                    if fmt.startswith("RDF"):
                        back = odml.tools.odmlparser.ODMLReader("RDF").from_file(real, sub)
                        n = len(back)
                    else:
                        back = odml.load(real, fmt, show_warnings=False)
                        n = len(list(back.itersections()))
                if n == 0:
                    rec.violation("written-file-empty:%s" % fmt, cfg, case)
            except Exception as e2:
                rec.violation("written-file-unloadable:%s:%s" % (fmt, type(e2).__name__), "%s: %r" % (cfg, e2), case)


def grid():
    cells = []
    fmts = [("XML", None), ("JSON", None), ("YAML", None)] + [("RDF", s) for s in RDF_FORMATS]
    for state in STATES:
        for fmt, sub in fmts:
            for fault in faults_for(fmt):
                if state not in ("valid", "warnings-only") and fault not in ("none",):
                    continue   # an invalid document is refused before the fault can act
                for target in ("absent", "existing"):
                    for entry in entries_for(fmt):
                        if entry.partition(":")[0] in ("XMLWriter.write_file", "RDFWriter.write_file") and state == "warnings-only":
                            continue
                        cells.append((state, fmt, sub, fault, target, entry))
    return cells


def run(ctx):
    from vlib import env
    import odml.tools.odmlparser  # noqa
    sdir = env.scratch()
    rec = ctx.rec
    cells = grid()
    if ctx.shard == 0:
        rec.extra["grid_cells"] = len(cells)
    for i, cell in enumerate(cells):
        if ctx.mine(i):
            run_cell(ctx, cell, sdir)
            if i % 200 == 0:
                rec.sample(list(cell))
    ndocs = ctx.pick(24, 4000)
    for j in range(ndocs):
        if not ctx.mine(j):
            continue
        rng = ctx.rng("doc", j)
        rng.seed("C07|%s|%d" % (ctx.seed, j))
        spec = gen.gen_doc(rng, max_nodes=10, hostile=0.2, tuples=False)
        for cell in rng.sample(cells, 40):
            run_cell(ctx, cell, sdir, spec)
        if ctx.time_left() < 0:
            break


def replay(case, ctx):
    from vlib import env
    import odml.tools.odmlparser  # noqa
    run_cell(ctx, tuple(case["cell"]), env.scratch(), dec(case["spec"]) if case.get("spec") else None)
