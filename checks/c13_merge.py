"""C13 -- merging one Section into another is complete, conservative and all-or-nothing.

Oracle = constraints derived from the statement, evaluated on pure-data models taken before and after
dest.merge(src, strict): completeness (every src child present by name / type, recursively), conservation
(own values kept as prefix, only lacking source values added, set attributes kept, unset ones filled,
dest-only children and the whole of src untouched, no aliasing between the trees), conflict => ValueError
in strict mode, and any raise => both trees exactly as before."""
import copy
import warnings

from vlib import core, gen, model
from vlib.model import enc, dec
from checks.c11_copies import reach

PROPERTY = "C13"
LEVEL = "exploration"
SHARDS = {"quick": 8, "thorough": 16}
RULE = ("pairs of Section trees derived from one 3-level template with controlled overlap; one conflict / "
        "near-conflict (case or whitespace only) / unset attribute planted at every (depth, sibling position, "
        "attribute) of the template x strict on/off (complete for the template), same-name-other-type "
        "sub-Sections, types differing in letter case only, convertible and unconvertible values, "
        "an earlier successful merge into any Section of src or dest (dest having or lacking that branch), then seeded random pairs; non-trivial = the trees "
        "share at least one child name; distinct = hash of (dest spec, src spec, strict) without ids")
ASSUMPTIONS = ["text attributes differing only in case/whitespace: don't-care in strict mode",
               "de-duplication of values that occur twice in the source: don't-care",
               "order of newly added children is not prescribed; existing children keep their relative order",
               "exception type of a refused merge is only prescribed (ValueError) for the listed strict conflicts"]
REQUIRED_MONITORS = ["success-constraints", "raise-unchanged", "strict-conflict-raises"]

TEXT_ATTRS = ("definition", "reference", "value_origin")
EXACT_ATTRS = ("unit", "uncertainty")
FILL_ATTRS = ("value_origin", "uncertainty", "reference", "definition", "unit")


def norm(x):
    return "".join(str(x).split()).lower()


def conv(v, dtype):
    """Independent conversion model for the dtypes the generator uses. Returns (ok, value)."""
    try:
        if dtype == "int":
            if isinstance(v, bool):
                return True, int(v)         # the library converts booleans like any other number: True -> 1
            if isinstance(v, int):
                return True, v
            if isinstance(v, float):
                return True, int(v)
            s = str(v).strip()
            try:
                return True, int(s)
            except ValueError:
                return True, int(float(s))
        if dtype == "float":
            if isinstance(v, bool):
                return False, None
            return True, float(v)
        if dtype in ("string", "text"):
            return True, str(v)
        if dtype.endswith("-tuple"):
            n = int(dtype.split("-")[0])
            if isinstance(v, (list, tuple)) and len(v) == n:
                return True, [str(e) for e in v]
            if isinstance(v, str):
                # the documented text form of an n-tuple: "(a;b)", blanks around the elements are not part of them
                t = v.strip()
                if t.startswith("(") and t.endswith(")") and t.count("(") == 1 and t.count(")") == 1:
                    elems = [e.strip() for e in t[1:-1].split(";")]
                    if len(elems) == n and all(elems):
                        return True, elems
            return False, None
        if dtype == "date":
            import datetime as _dt
            if isinstance(v, _dt.datetime):
                return False, None          # a datetime is not a date
            if isinstance(v, _dt.date):
                return True, v
            return False, None
        if dtype == "boolean":
            if isinstance(v, bool):
                return True, v
            return False, None
    except (ValueError, TypeError):
        return False, None
    return False, None


def analyse(d, s, strict, path=""):
    """Returns dict(conflict, near, unmergeable, reasons) for matched trees d (dest) and s (source)."""
    res = {"conflict": False, "near": False, "unmergeable": False, "reasons": []}

    def text_cmp(a, b, what):
        if a is None or b is None or a == b:
            return
        if norm(a) == norm(b):
            res["near"] = True
            res["reasons"].append("near:" + what)
        else:
            res["conflict"] = True
            res["reasons"].append("conflict:" + what)

    def sec(dm, sm, depth):
        text_cmp(dm["definition"], sm["definition"], "sec.definition@%d" % depth)
        text_cmp(dm["reference"], sm["reference"], "sec.reference@%d" % depth)
        for sp in sm["properties"]:
            dp = next((p for p in dm["properties"] if p["name"] == sp["name"]), None)
            if dp is None:
                continue
            if dp["dtype"] is not None and sp["dtype"] is not None and dp["dtype"] != sp["dtype"]:
                res["conflict"] = True
                res["reasons"].append("conflict:dtype@%d" % depth)
            for a in EXACT_ATTRS:
                if dp[a] is not None and sp[a] is not None and dp[a] != sp[a]:
                    res["conflict"] = True
                    res["reasons"].append("conflict:%s@%d" % (a, depth))
            for a in TEXT_ATTRS:
                text_cmp(dp[a], sp[a], "prop.%s@%d" % (a, depth))
            if strict and dp["dtype"] == "string" and sp["dtype"] == "string" and \
                    any(isinstance(v, str) and "\n" in v and v not in dp["values"] for v in sp["values"]) \
                    and dp["values"]:
                # the library infers 'text' for such a value and refuses to extend a 'string' Property
                # in strict mode: a refusal is tolerated (don't-care), but it must be all-or-nothing
                res["near"] = True
                res["reasons"].append("strict-string-value-with-newline@%d" % depth)
            for v in sp["values"]:
                ok, _ = conv(v, dp["dtype"]) if dp["dtype"] else (True, v)
                if not ok:
                    res["unmergeable"] = True
                    res["reasons"].append("unconvertible-value@%d" % depth)
        for ss in sm["sections"]:
            same = [c for c in dm["sections"] if c["name"] == ss["name"]]
            if same and same[0]["type"] != ss["type"]:
                res["unmergeable"] = True
                res["reasons"].append("same-name-other-type@%d" % depth)
            elif same:
                sec(same[0], ss, depth + 1)
    sec(d, s, 0)
    return res


def verify_success(db, sm, da, strict, probs, path=""):
    """Constraints on the dest model after a successful merge."""
    here = path + "/" + str(db["name"])
    for a in ("definition", "reference"):
        exp = db[a] if db[a] is not None else sm[a]
        if not model.same(da[a], exp):
            probs.append(("sec-attr:%s:%s" % (a, "overwritten" if db[a] is not None else "not-filled"),
                          "%s.%s expected %r got %r" % (here, a, exp, da[a])))
    for a in ("id", "name", "type", "repository", "link", "include", "sec_cardinality", "prop_cardinality"):
        if not model.same(da[a], db[a]):
            probs.append(("sec-attr:%s:changed" % a, "%s.%s %r -> %r" % (here, a, db[a], da[a])))
    # properties
    after_p = {p["name"]: p for p in da["properties"]}
    before_p = {p["name"]: p for p in db["properties"]}
    for sp in sm["properties"]:
        ap = after_p.get(sp["name"])
        if ap is None:
            probs.append(("prop-missing", "%s:%s" % (here, sp["name"])))
            continue
        bp = before_p.get(sp["name"])
        if bp is None:
            if model.diff(sp, ap, ignore=("id",)):
                probs.append(("new-prop-not-a-copy:%s" % model.diff(sp, ap, ignore=("id",))[0]["field"],
                              "%s:%s %r" % (here, sp["name"], model.diff(sp, ap, ignore=("id",))[:1])))
            if ap["id"] == sp["id"]:
                probs.append(("new-prop-keeps-source-id", "%s:%s" % (here, sp["name"])))
            continue
        for a in ("id", "name", "dtype", "dependency", "dependency_value", "val_cardinality"):
            if a == "dtype" and bp["dtype"] is None:
                continue   # an untyped (hence empty) Property takes the type of the values it gains
            if not model.same(ap[a], bp[a]):
                probs.append(("prop-attr:%s:changed" % a, "%s:%s.%s %r -> %r" % (here, sp["name"], a, bp[a], ap[a])))
        for a in FILL_ATTRS:
            exp = bp[a] if bp[a] is not None else sp[a]
            if not model.same(ap[a], exp):
                probs.append(("prop-attr:%s:%s" % (a, "overwritten" if bp[a] is not None else "not-filled"),
                              "%s:%s.%s expected %r got %r" % (here, sp["name"], a, exp, ap[a])))
        vals = ap["values"]
        if not model.same(vals[:len(bp["values"])], bp["values"]):
            probs.append(("values:own-values-not-kept", "%s:%s %r -> %r" % (here, sp["name"], bp["values"], vals)))
        want = []
        for v in sp["values"]:
            ok, cv = conv(v, bp["dtype"]) if bp["dtype"] else (True, v)
            if ok:
                want.append(cv)
        for cv in want:
            if not any(model.same(cv, x) for x in vals):
                probs.append(("values:source-value-missing", "%s:%s lacks %r (has %r)" % (here, sp["name"], cv, vals)))
        for x in vals[len(bp["values"]):]:
            if not any(model.same(x, cv) for cv in want):
                probs.append(("values:foreign-value-added", "%s:%s got %r" % (here, sp["name"], x)))
    for name, bp in before_p.items():
        if name not in {p["name"] for p in sm["properties"]}:
            if name not in after_p or model.diff(bp, after_p[name]):
                probs.append(("dest-only-prop-changed", "%s:%s" % (here, name)))
    extra = set(after_p) - set(before_p) - {p["name"] for p in sm["properties"]}
    if extra:
        probs.append(("extra-props", "%s %r" % (here, sorted(extra))))
    order = [p["name"] for p in da["properties"] if p["name"] in before_p]
    if order != [p["name"] for p in db["properties"]]:
        probs.append(("existing-props-reordered", here))
    # sections
    after_s = {c["name"]: c for c in da["sections"]}
    before_s = {c["name"]: c for c in db["sections"]}
    for ss in sm["sections"]:
        a_ = after_s.get(ss["name"])
        if a_ is None or a_["type"] != ss["type"]:
            probs.append(("section-missing", "%s/%s[%s]" % (here, ss["name"], ss["type"])))
            continue
        b_ = before_s.get(ss["name"])
        if b_ is None:
            if model.diff(ss, a_, ignore=("id",)):
                probs.append(("new-section-not-a-copy:%s" % model.diff(ss, a_, ignore=("id",))[0]["field"],
                              "%s/%s %r" % (here, ss["name"], model.diff(ss, a_, ignore=("id",))[:1])))
        else:
            verify_success(b_, ss, a_, strict, probs, here)
    for name, b_ in before_s.items():
        if name not in {c["name"] for c in sm["sections"]}:
            if name not in after_s or model.diff(b_, after_s[name]):
                probs.append(("dest-only-section-changed", "%s/%s" % (here, name)))
    extra = set(after_s) - set(before_s) - {c["name"] for c in sm["sections"]}
    if extra:
        probs.append(("extra-sections", "%s %r" % (here, sorted(extra))))
    order = [c["name"] for c in da["sections"] if c["name"] in before_s]
    if order != [c["name"] for c in db["sections"]]:
        probs.append(("existing-sections-reordered", here))


WARNINGS_AS_ERRORS = False


def run_case(case, ctx):
    rec = ctx.rec
    dspec, sspec, strict = dec(case["dest"]), dec(case["src"]), case["strict"]
    rec.evaluation()
    with warnings.catch_warnings():
        warnings.simplefilter("ignore")
        try:
            dest, src = gen.build_sec(dspec), gen.build_sec(sspec)
        except Exception as exc:
            rec.outcome("build-refused:" + type(exc).__name__)
            return
        # optionally attach both to documents (merge behaves the same; exercises parents)
        if case.get("attached"):
            import odml
            doc = odml.Document()
            dest.parent = doc
            src.parent = odml.Document()
        # earlier successful merges into nodes of either tree: the trees under test then carry that history
        for pre in case.get("pre", ()):
            node = dest if pre["side"] == "dest" else src
            try:
                for k, i in pre["path"]:
                    node = node.sections[i]
                node.merge(gen.build_sec(dec(pre["extra"])), strict=False)
                rec.count("pre-merge", "%s@%d:done" % (pre["side"], len(pre["path"])))
            except Exception as exc:
                rec.count("pre-merge", "%s@%d:%s" % (pre["side"], len(pre["path"]), type(exc).__name__))
        db, sb = model.model_of(dest), model.model_of(src)
        from checks.c01_xml import no_ids
        share = {c["name"] for c in db["sections"]} & {c["name"] for c in sb["sections"]} or \
            {p["name"] for p in db["properties"]} & {p["name"] for p in sb["properties"]}
        rec.case(core.h([enc(no_ids(dspec)), enc(no_ids(sspec)), strict]), bool(share))
        an = analyse(db, sb, strict)
        rec.count("planted", "|".join(sorted(set(r.split("@")[0] for r in an["reasons"]))) or "none")
        raised = None
        try:
            if WARNINGS_AS_ERRORS:
                warnings.simplefilter("error")
            dest.merge(src, strict=strict)
        except Warning as exc:
            # the environment turned a warning into an exception: only the all-or-nothing clause is judged
            warnings.simplefilter("ignore")
            da, sa = model.model_of(dest), model.model_of(src)
            rec.monitor("raise-unchanged")
            if model.diff(db, da) or model.diff(sb, sa):
                rec.violation("merge:%s/raised-%s-but-changed-%s:warning-as-error" % (
                    "strict" if strict else "lenient", type(exc).__name__, "dest" if model.diff(db, da) else "src"),
                    "merge ended in %r; dest diff %r" % (exc, model.diff(db, da)[:2]), case)
            rec.outcome("raised:warning-as-error")
            return
        except Exception as exc:
            raised = exc
        finally:
            warnings.simplefilter("ignore")
        da, sa = model.model_of(dest), model.model_of(src)
        tag = "strict" if strict else "lenient"
        if raised is not None:
            rec.outcome("raised:" + type(raised).__name__)
            rec.monitor("raise-unchanged")
            dd, sd = model.diff(db, da), model.diff(sb, sa)
            um = sorted(set(r.split("@")[0] for r in an["reasons"] if not r.startswith(("conflict", "near"))))
            why = "|".join(um) if um else ("attribute-conflict" if an["conflict"] else
                                           ("near-conflict" if an["near"] else "no-reason-in-model"))
            if dd or sd:
                rec.violation("merge:%s/raised-%s-but-changed-%s:%s" % (tag, type(raised).__name__,
                                                                       "dest" if dd else "src", why),
                              "merge raised %r; dest diff %r src diff %r" % (raised, dd[:2], sd[:2]), case)
            if strict and an["conflict"] and not isinstance(raised, ValueError):
                rec.violation("merge:strict/conflict-raised-%s" % type(raised).__name__, repr(raised), case)
            if not an["conflict"] and not an["unmergeable"] and not (strict and an["near"]):
                # the model sees no reason to refuse
                rec.violation("merge:%s/refused-without-reason:%s" % (tag, type(raised).__name__),
                              "merge raised %r, model found nothing to refuse (%r)" % (raised, an["reasons"]), case)
            elif not strict and not an["unmergeable"]:
                rec.violation("merge:lenient/refused-for-attribute-conflict:%s" % type(raised).__name__,
                              "non-strict merge raised %r for %r" % (raised, an["reasons"]), case)
            return
        rec.outcome("returned")
        if strict:
            rec.monitor("strict-conflict-raises")
            if an["conflict"]:
                rec.violation("merge:strict/conflict-not-refused:%s" % "|".join(sorted(set(
                    r.split("@")[0] for r in an["reasons"] if r.startswith("conflict")))),
                    "strict merge succeeded despite %r" % an["reasons"], case)
                return
        if an["unmergeable"]:
            rec.violation("merge:%s/unmergeable-accepted:%s" % (tag, "|".join(sorted(set(
                r.split("@")[0] for r in an["reasons"] if not r.startswith(("conflict", "near"))))),),
                "merge succeeded despite %r" % an["reasons"], case)
            return
        rec.monitor("success-constraints")
        probs = []
        verify_success(db, sb, da, strict, probs)
        for key, what in probs:
            rec.violation("merge:%s/%s" % (tag, key), what, case)
        if model.diff(sb, sa):
            rec.violation("merge:%s/source-changed:%s" % (tag, model.diff(sb, sa)[0]["field"]), repr(model.diff(sb, sa)[:2]), case)
        if src.__dict__.get("_parent") is not None and not case.get("attached"):
            rec.violation("merge:%s/source-got-a-parent" % tag, "", case)
        shared = set(reach(dest)) & set(reach(src))
        if shared:
            rec.violation("merge:%s/trees-share-objects" % tag, "%r" % sorted({reach(src)[i] for i in shared}), case)


# ---------------------------------------------------------------------------------------------
# workload

def P(name, dtype="int", values=(1, 2), **kw):
    p = {"k": "prop", "id": None, "name": name, "dtype": dtype, "values": list(values), "unit": None,
         "uncertainty": None, "reference": None, "definition": None, "dependency": None,
         "dependency_value": None, "value_origin": None, "val_cardinality": None}
    p.update(kw)
    return p


def S(name, typ="t", props=(), secs=(), **kw):
    s = {"k": "sec", "id": None, "name": name, "type": typ, "definition": None, "reference": None,
         "repository": None, "link": None, "include": None, "sec_cardinality": None, "prop_cardinality": None,
         "properties": list(props), "sections": list(secs)}
    s.update(kw)
    return s


def template():
    return S("root", props=[P("p", "int", [1, 2], unit="mV", definition="Def P"), P("q", "string", ["x"]), P("r", "float", [1.5])],
             secs=[S("a", props=[P("p", "int", [3]), P("q", "string", ["y"], reference="Ref", value_origin="file.dat")],
                     secs=[S("aa", props=[P("p", "string", ["deep"], uncertainty=0.5)]), S("ab")],
                     definition="Def A", reference="Ref A"),
                   S("b", props=[P("p", "float", [2.5], unit="s")]),
                   S("c", secs=[S("ca", props=[P("z", "int", [9])])])],
             definition="Root def")


def sites(t):
    """(path-to-node, kind) for every Section and Property of a template."""
    out = []

    def rec(s, path):
        out.append((path, "sec"))
        for i, p in enumerate(s["properties"]):
            out.append((path + [("p", i)], "prop"))
        for i, c in enumerate(s["sections"]):
            rec(c, path + [("s", i)])
    rec(t, [])
    return out


def node_at(t, path):
    cur = t
    for k, i in path:
        cur = cur["properties" if k == "p" else "sections"][i]
    return cur


def planted_cases():
    cases = []
    base = template()
    for path, k in sites(base):
        attrs = ["definition", "reference"] if k == "sec" else ["dtype", "unit", "uncertainty", "definition",
                                                                 "reference", "value_origin", "values-new",
                                                                 "values-unconvertible", "values-convertible",
                                                                 "values-late-unconvertible"]
        for attr in attrs:
            for how in ("conflict", "near", "src-unset", "dest-unset", "equal", "dest-falsy", "src-falsy",
                        "dest-unset-src-padded", "dest-unset-src-blank"):
                if attr.startswith("values") and how != "conflict":
                    continue
                if how.startswith("dest-unset-src") and attr in ("dtype", "uncertainty"):
                    continue
                if how.endswith("falsy") and attr != "uncertainty":
                    continue   # the only attribute with a meaningful falsy value (0)
                if attr in ("dtype", "unit", "uncertainty") and how == "near":
                    continue
                d, s = copy.deepcopy(base), copy.deepcopy(base)
                dn, sn = node_at(d, path), node_at(s, path)
                if attr == "dtype":
                    sn["dtype"] = "string" if dn["dtype"] != "string" else "int"
                    sn["values"] = ["7"] if sn["dtype"] == "string" else [7]
                    if how == "src-unset":
                        sn["values"], sn["dtype"] = [], None
                    if how == "dest-unset":
                        dn["values"], dn["dtype"] = [], None
                    if how == "equal":
                        sn["dtype"], sn["values"] = dn["dtype"], list(dn["values"])
                elif attr == "values-new":
                    sn["values"] = list(dn["values"]) + gen._good_value(dn["dtype"])
                elif attr == "values-unconvertible":
                    if dn["dtype"] not in ("int", "float"):
                        continue
                    sn["dtype"], sn["values"] = "string", ["not-a-number"]
                elif attr == "values-late-unconvertible":
                    if dn["dtype"] not in ("int", "float"):
                        continue
                    sn["dtype"], sn["values"] = "string", ["41", "42", "not-a-number"]
                elif attr == "values-convertible":
                    if dn["dtype"] not in ("int", "float"):
                        continue
                    sn["dtype"], sn["values"] = "string", ["41", "42", "2.5e3", "-3.2e1", "1.25E2"]
                else:
                    basev = {"uncertainty": 0.25}.get(attr, "Some Text")
                    other = {"uncertainty": 0.75}.get(attr, "Another text")
                    dn[attr] = basev
                    sn[attr] = {"conflict": other, "near": "  some   TEXT " if attr != "unit" else other,
                                "src-unset": None, "dest-unset": basev, "equal": basev,
                                "dest-falsy": other, "src-falsy": 0,
                                "dest-unset-src-padded": "  Padded text\t\n", "dest-unset-src-blank": " \t "}[how]
                    if how.startswith("dest-unset"):
                        dn[attr] = None
                    if how == "dest-falsy":
                        dn[attr] = 0.0
                for strict in (True, False):
                    cases.append({"dest": enc(d), "src": enc(s), "strict": strict,
                                  "planted": [attr, how, len(path), k]})
    # structural specials
    for strict in (True, False):
        d, s = template(), template()
        s["sections"][1]["type"] = "other"            # same name, other type, after a mergeable sibling
        cases.append({"dest": enc(d), "src": enc(s), "strict": strict, "planted": ["same-name-other-type", "", 1, "sec"]})
        d, s = template(), template()
        s["sections"][0]["sections"][1]["type"] = "other"
        cases.append({"dest": enc(d), "src": enc(s), "strict": strict, "planted": ["same-name-other-type", "", 2, "sec"]})
        for depth, (di, si) in enumerate([((1,), (1,)), ((0, 1), (0, 1))]):
            # types that differ in letter case only are different types
            for dt, st in (("t", "T"), ("Stim/White", "stim/white")):
                d, s = template(), template()
                dn, sn = d, s
                for i in di:
                    dn, sn = dn["sections"][i], sn["sections"][i]
                dn["type"], sn["type"] = dt, st
                cases.append({"dest": enc(d), "src": enc(s), "strict": strict,
                              "planted": ["same-name-type-differs-in-case", dt, depth + 1, "sec"]})
        # a source (or dest) that has itself been the destination of an earlier merge, at every Section of the template
        extra = S("x", props=[P("p", "int", [77]), P("fresh", "string", ["f"])], secs=[S("sub", props=[P("k", "int", [5])])])
        for path, k in sites(template()):
            if k != "sec":
                continue
            for side in ("src", "dest"):
                for lacking in (True, False):
                    d, s = template(), template()
                    if lacking and path:
                        # dest lacks the top-level branch that holds the earlier merged node: it is copied
                        other = d if side == "src" else s
                        other["sections"] = [c for j, c in enumerate(other["sections"]) if j != path[0][1]]
                    cases.append({"dest": enc(d), "src": enc(s), "strict": strict, "pre": [
                        {"side": side, "path": [list(x) for x in path], "extra": enc(extra)}],
                        "planted": ["earlier-merge-into-%s" % side, "lacking" if lacking else "present", len(path), "sec"]})
        # values of a look-alike Python type (sub-classes: bool is an int, datetime is a date) in a lenient merge
        import datetime as _dt
        for ddt, dvals, sdt, svals, tag in (("int", [2], "boolean", [True, False], "int<-boolean"),
                                            ("date", [_dt.date(2020, 1, 2)], "datetime", [_dt.datetime(2021, 3, 4, 5, 6, 7)], "date<-datetime"),
                                            ("date", [_dt.date(2020, 1, 2)], "date", [_dt.date(2021, 3, 4)], "date<-date"),
                                            ("boolean", [True], "boolean", [False], "boolean<-boolean")):
            for depth in (0, 1):
                d, s = template(), template()
                dn, sn = (d, s) if depth == 0 else (d["sections"][0], s["sections"][0])
                dn["properties"].append(P("lookalike", ddt, dvals))
                sn["properties"].append(P("lookalike", sdt, svals))
                cases.append({"dest": enc(d), "src": enc(s), "strict": strict, "planted": ["values-of-lookalike-type", tag, depth, "prop"]})
        # n-tuple Properties: same arity merges, another arity cannot
        for sdt, svals, tag in (("2-tuple", [["3", "4"], ["1", "2"]], "2-tuple<-2-tuple"), ("2-tuple", [["1", "2"]], "2-tuple<-equal"),
                                ("3-tuple", [["3", "4", "5"]], "2-tuple<-3-tuple"), ("2-tuple", [["5", ""]], "2-tuple<-empty-element"),
                                ("2-tuple", [["n", str(k)] for k in range(3)], "many-values<-2-tuple"),
                                ("string", ["(3;4)", "(5; 6)"], "2-tuple<-text"), ("string", ["(3; 4)", ""], "2-tuple<-text-with-empty"),
                                ("string", ["(3;4)", " "], "2-tuple<-text-with-blank")):
            for depth in (0, 1):
                d, s = template(), template()
                dn, sn = (d, s) if depth == 0 else (d["sections"][0], s["sections"][0])
                dn["properties"].append(P("tup", "2-tuple", [["1", "2"]] if not tag.startswith("many") else
                                          [["v", str(k)] for k in range(25)]))
                sn["properties"].append(P("tup", sdt, svals))
                cases.append({"dest": enc(d), "src": enc(s), "strict": strict, "planted": ["tuple-properties", tag, depth, "prop"]})
        # n-tuples with a two-digit arity, on both sides
        for depth in (0, 1):
            d, s = template(), template()
            dn, sn = (d, s) if depth == 0 else (d["sections"][0], s["sections"][0])
            dn["properties"].append(P("wide", "12-tuple", [[str(k) for k in range(12)]], unit="mV"))
            sn["properties"].append(P("wide", "12-tuple", [[str(k) for k in range(12)], [str(k * 2) for k in range(12)]],
                                      definition="wide def"))
            cases.append({"dest": enc(d), "src": enc(s), "strict": strict, "planted": ["tuple-properties", "12-tuple<-12-tuple", depth, "prop"]})
        # numbers (zeros in particular) merged into a text Property are converted to their text
        for sdt, svals, tag in (("int", [0, 5], "string<-int"), ("float", [0.0, 2.5], "string<-float"), ("int", [0], "string<-zero-only")):
            for depth in (0, 1):
                d, s = template(), template()
                dn, sn = (d, s) if depth == 0 else (d["sections"][0], s["sections"][0])
                dn["properties"].append(P("textual", "string", ["a"]))
                sn["properties"].append(P("textual", sdt, svals))
                cases.append({"dest": enc(d), "src": enc(s), "strict": strict, "planted": ["numbers-into-text", tag, depth, "prop"]})
        # names that are canonically equivalent (NFC / NFD) but not equal are different names
        for depth in (0, 1):
            d, s = template(), template()
            dn, sn = (d, s) if depth == 0 else (d["sections"][0], s["sections"][0])
            dn["properties"].append(P(u"caf\u00e9", "string", ["composed"]))
            sn["properties"].append(P(u"cafe\u0301", "string", ["decomposed"]))
            dn["sections"].append(S(u"\u00c5ngstr\u00f6m", props=[P("k", "int", [1])]))
            sn["sections"].append(S(u"A\u030angstro\u0308m", props=[P("k", "int", [2])]))
            cases.append({"dest": enc(d), "src": enc(s), "strict": strict, "planted": ["names-canonically-equivalent", "", depth, "sec"]})
        d, s = template(), S("root", props=[P("new1", "string", ["n"])], secs=[S("zz", props=[P("k", "int", [1])])])
        cases.append({"dest": enc(d), "src": enc(s), "strict": strict, "planted": ["disjoint", "", 0, "sec"]})
        d, s = S("root"), template()
        cases.append({"dest": enc(d), "src": enc(s), "strict": strict, "planted": ["into-empty", "", 0, "sec"]})
        d, s = template(), S("other-name")
        cases.append({"dest": enc(d), "src": enc(s), "strict": strict, "planted": ["empty-source", "", 0, "sec"]})
        d, s = template(), template()
        s["properties"][1]["values"] = ["line1\nline2"]
        s["properties"][1]["unit"] = "u"
        cases.append({"dest": enc(d), "src": enc(s), "strict": strict, "planted": ["string-with-newline", "", 0, "prop"]})
        d, s = template(), template()
        s["properties"][1]["values"] = list(d["properties"][1]["values"]) + ["line1\nline2"]     # the first value is not new
        s["properties"][1]["unit"] = "u"
        cases.append({"dest": enc(d), "src": enc(s), "strict": strict, "planted": ["string-with-newline-after-known-value", "", 0, "prop"]})
        d, s = template(), template()
        s["properties"][0]["values"] = [2, 2, 5, 5]
        cases.append({"dest": enc(d), "src": enc(s), "strict": strict, "planted": ["duplicates-in-source", "", 0, "prop"]})
    return cases


def random_pair(rng):
    base = template()
    d, s = copy.deepcopy(base), copy.deepcopy(base)

    def mutate(t, side):
        for path, k in sites(t):
            n = node_at(t, path)
            if k == "prop":
                r = rng.random()
                if r < 0.15:
                    n["values"] = gen._good_value(n["dtype"]) + list(n["values"])
                elif r < 0.25:
                    n["values"] = []
                for a in FILL_ATTRS:
                    q = rng.random()
                    if q < 0.15:
                        n[a] = None
                    elif q < 0.3:
                        n[a] = rng.choice([0.5, 0, 0.0, 2]) if a == "uncertainty" else \
                            rng.choice(["Some Text", "some text", "Other", "u"])
                if rng.random() < 0.06:
                    n["dtype"] = rng.choice(["int", "float", "string"])
                    n["values"] = gen._good_value(n["dtype"])
                if rng.random() < 0.05 and side == "src":
                    n["dtype"], n["values"] = "string", rng.choice([["12"], ["x"], ["1.5"], ["7", "x"], ["3", "4", "y"]])
            else:
                for a in ("definition", "reference"):
                    q = rng.random()
                    if q < 0.2:
                        n[a] = None
                    elif q < 0.35:
                        n[a] = rng.choice(["Some Text", "some  text", "Other"])
                if rng.random() < 0.06 and path:
                    n["type"] = rng.choice(["other", "T", "t/sub"])
        # drop / rename some children
        def prune(sec):
            sec["properties"] = [p for p in sec["properties"] if rng.random() > 0.2]
            sec["sections"] = [c for c in sec["sections"] if rng.random() > 0.2]
            for c in sec["sections"]:
                prune(c)
            if rng.random() < 0.3:
                sec["properties"].append(P("extra_%s" % side, "string", ["e"]))
            if rng.random() < 0.2:
                sec["sections"].append(S("only_%s" % side, props=[P("w", "int", [1])]))
        prune(t)
    mutate(d, "dest")
    mutate(s, "src")
    return d, s


def run(ctx):
    rec = ctx.rec
    global WARNINGS_AS_ERRORS
    if ctx.shard % 4 == 2:
        # environment: warnings raised as exceptions; a merge that ends in one is a merge that raised
        WARNINGS_AS_ERRORS = True
        rec.count("worker-environments", "warnings-as-errors")
    planted = planted_cases()
    if ctx.shard == 0:
        rec.extra["planted_cases"] = len(planted)
    for i, case in enumerate(planted):
        if not ctx.mine(i):
            continue
        case["attached"] = (i % 3 == 0)
        run_case(case, ctx)
        if i % 150 == 0:
            rec.sample({"planted": case["planted"], "strict": case["strict"]})
    for j in range(ctx.pick(1500, 400000)):
        if not ctx.mine(j):
            continue
        rng = ctx.rng("pair", j)
        rng.seed("C13|%s|%d" % (ctx.seed, j))
        d, s = random_pair(rng)
        case = {"dest": enc(d), "src": enc(s), "strict": rng.random() < 0.5, "attached": rng.random() < 0.3, "j": j}
        if rng.random() < 0.25:
            pre = []
            for side, t in (("src", s), ("dest", d)):
                spaths = [pth for pth, k in sites(t) if k == "sec"]
                for _ in range(rng.choice([0, 1, 1, 2])):
                    pre.append({"side": side, "path": [list(x) for x in rng.choice(spaths)], "extra": enc(
                        S("x", props=[P(rng.choice(["p", "fresh", "q"]), "string", ["f%d" % j])],
                          secs=[S(rng.choice(["sub", "a", "aa"]), props=[P("k", "int", [5])])]))})
            case["pre"] = pre
        run_case(case, ctx)
        if ctx.time_left() < 0:
            break


def replay(case, ctx):
    run_case(case, ctx)
