"""C02 -- JSON / YAML save/load lossless, odML 1.1 dictionary layout.

Monitors: roundtrip (item-by-item model diff, no trimming), layout (text re-parsed with plain json /
yaml.safe_load and walked against models/odml11.py; also on DictWriter.to_dict's return value),
json-vs-yaml (both loaded documents compared with each other), foreign (dictionary emitted by
models/emit.py, serialised by plain json/yaml, loads to the model), save-pure.
"""
import io
import json
import os
import warnings

import yaml

from vlib import core, gen, model, classify
from vlib.model import enc, dec
from models import odml11, emit
from checks.c01_xml import no_ids, nontrivial, lattice_cases, lattice_spec

PROPERTY = "C02"
LEVEL = "exploration"
SHARDS = {"quick": 8, "thorough": 16}
RULE = ("same seeded document generator as C01 (plus YAML-lookalike strings and numerically falsy attribute "
        "values) x {JSON, YAML} x entry points {to_string/from_string, save/load, write_file/from_file, "
        "to_dict/to_odml strict+lenient}; value-shape lattice enumerated completely; non-trivial = document "
        "with a multi-valued Property, hostile text, cardinality or tuple; distinct = spec hash without ids")
ASSUMPTIONS = [
    "no trimming: strings are compared exactly",
    "attributes set to '' count as unset and are not generated",
    "plain json / PyYAML safe_load are trusted as the independent parsers of the written text",
    "agreement with XML follows by transitivity from C01 + this check (each format is compared with the "
    "saved document); JSON and YAML are additionally compared with each other directly",
]
REQUIRED_MONITORS = ["instance-reuse", "roundtrip", "layout", "layout-to_dict", "json-vs-yaml", "foreign", "save-pure"]

ENTRIES = ["string", "save-load", "save-load-no-extension", "write_file", "dict-strict", "dict-lenient"]


def layout_problems(parsed):
    probs = []
    if not isinstance(parsed, dict):
        return ["root is %s" % type(parsed).__name__]
    if set(parsed) != odml11.DICT_ROOT_KEYS:
        probs.append("root keys %s" % sorted(map(str, parsed)))
    if parsed.get("odml-version") != odml11.FORMAT_VERSION:
        probs.append("odml-version is %r" % (parsed.get("odml-version"),))
    d = parsed.get("Document")
    if not isinstance(d, dict):
        return probs + ["Document is %s" % type(d).__name__]

    def walk(node, kind, where):
        if not isinstance(node, dict):
            probs.append("%s is not a mapping" % kind)
            return
        for k in node:
            if k not in odml11.DICT_KEYS[kind]:
                probs.append("key '%s' in %s" % (k, kind))
        for s in node.get("sections", []) or []:
            walk(s, "sec", where)
        if kind == "sec":
            for p in node.get("properties", []) or []:
                walk(p, "prop", where)
        if kind in ("sec", "prop") and not node.get("name"):
            probs.append("%s without name" % kind)
    walk(d, "doc", "")
    return probs


def dict_only(parsed_doc):
    return {"Document": parsed_doc, "odml-version": "1.1"}


def write_and_read(doc, fmt, entry, sdir):
    import odml
    from odml.tools.odmlparser import ODMLWriter, ODMLReader
    from odml.tools.dict_parser import DictWriter, DictReader
    ext = {"JSON": "json", "YAML": "yaml"}[fmt]
    path = os.path.join(sdir, "c02." + ext)
    if os.path.exists(path):
        os.remove(path)
    text = None
    try:
        if entry == "string":
            text = ODMLWriter(fmt).to_string(doc)
        elif entry == "save-load":
            odml.save(doc, path, fmt)
        elif entry == "save-load-no-extension":
            # a target named without extension, in a directory other than the current one: the documented
            # "<name>.<format>" is written there
            d_ = os.path.join(sdir, "c02dir")
            os.makedirs(d_, exist_ok=True)
            cwd_ = os.path.join(sdir, "c02cwd")          # the current directory of the call: a scratch directory of its own
            os.makedirs(cwd_, exist_ok=True)
            for stale in [os.path.join(d_, f_) for f_ in os.listdir(d_)] + [os.path.join(cwd_, f_) for f_ in os.listdir(cwd_)]:
                os.remove(stale)
            was_ = os.getcwd()
            os.chdir(cwd_)
            try:
                odml.save(doc, os.path.join(d_, "metadata"), fmt)
            finally:
                os.chdir(was_)
            # (the format name is appended as it was given: metadata.JSON for backend "JSON")
            hits = [f_ for f_ in os.listdir(d_) if f_.lower() == "metadata." + ext]
            path = os.path.join(d_, hits[0]) if hits else os.path.join(d_, "metadata." + ext)
            if not os.path.exists(path):
                elsewhere = [os.path.join(d_, f_) for f_ in os.listdir(d_)] + [os.path.join(cwd_, f_) for f_ in os.listdir(cwd_)]
                return ("write-raised", FileNotFoundError("save(<dir>/metadata, %s) did not write <dir>/metadata.%s (found instead: %s)" % (
                    fmt, ext, [("<cwd>/" if e_.startswith(cwd_) else "<dir>/") + os.path.basename(e_) for e_ in elsewhere])))
        elif entry == "write_file":
            ODMLWriter(fmt).write_file(doc, path)
        else:
            parsed = dict_only(DictWriter().to_dict(doc))
    except Exception as exc:
        return ("write-raised", exc)
    try:
        if entry == "string":
            loaded = ODMLReader(fmt, show_warnings=False).from_string(text)
        elif entry in ("save-load", "save-load-no-extension"):
            with io.open(path) as f:
                text = f.read()
            loaded = odml.load(path, fmt, show_warnings=False)
        elif entry == "write_file":
            with io.open(path) as f:
                text = f.read()
            loaded = ODMLReader(fmt, show_warnings=False).from_file(path)
        else:
            loaded = DictReader(show_warnings=False, ignore_errors=(entry == "dict-lenient")).to_odml(parsed)
            return ("ok", None, loaded, parsed)
    except Exception as exc:
        return ("read-raised", exc, text)
    return ("ok", text, loaded, None)


def run_case(case, ctx, sdir):
    rec = ctx.rec
    spec = dec(case["spec"])
    kind = case.get("kind", "generated")
    rec.evaluation()
    with warnings.catch_warnings():
        warnings.simplefilter("ignore")
        try:
            doc = gen.build_doc(spec)
        except Exception as exc:
            rec.outcome("build-refused:%s" % type(exc).__name__)
            rec.case(None, False)
            return
        if case.get("resolve_link"):
            # a link that is resolved when the document is saved: the second top level Section refers to the first one
            # and holds copies of its children (what is saved is the document as it stands)
            tops_ = list(doc.sections)
            if len(tops_) > 1 and tops_[1].link is None and tops_[1].include is None and tops_[0].link is None \
                    and tops_[0].include is None and not any(x_.link or x_.include for x_ in tops_[0].itersections()):
                try:
                    tops_[1].link = tops_[0].get_path()
                    rec.count("kind", "with-a-resolved-link")
                except Exception:
                    rec.count("kind", "link-refused (document used as built)")
        before = model.model_of(doc)
        rec.case(core.h(enc(no_ids(spec))), nontrivial(spec))
        rec.count("kind", kind)
        loaded_models = {}
        for fmt, entry in (case.get("configs") or [(f, e) for f in ("JSON", "YAML") for e in ENTRIES]):
            if entry.startswith("dict-") and fmt == "YAML":
                continue  # the dictionary path is format independent
            cfg = "%s|%s" % (fmt, entry)
            tag = "dict" if entry.startswith("dict-") else fmt.lower()
            witness = dict(case, configs=[[fmt, entry]])
            res = write_and_read(doc, fmt, entry, sdir)
            rec.count("config", cfg)
            if res[0] == "write-raised":
                rec.outcome("write-raised:%s" % type(res[1]).__name__)
                rec.violation("%s/writer-raised:%s" % (tag, type(res[1]).__name__),
                              "%s: writer raised %r" % (cfg, str(res[1])[:200]), witness)
                continue
            if res[0] == "read-raised":
                rec.outcome("read-raised:%s" % type(res[1]).__name__)
                from checks.c01_xml import suspect
                rec.violation("%s/tuple-element-with-syntax-char" % tag if suspect(spec) != "other" else
                              "%s/own-output-rejected:%s" % (tag, type(res[1]).__name__),
                              "%s: reader raised %r on the library's own output" % (cfg, str(res[1])[:200]),
                              witness)
                continue
            _, text, loaded, parsed = res
            if loaded is None:
                rec.violation("%s/own-output-unparsable" % tag, "%s: reader returned None" % cfg, witness)
                continue
            rec.outcome("roundtrip-ok")
            if text is not None:
                rec.monitor("layout")
                try:
                    reparsed = json.loads(text) if fmt == "JSON" else yaml.safe_load(text)
                    probs = layout_problems(reparsed)
                except Exception as exc:
                    probs = ["text not parsable by plain %s: %s" % (fmt, str(exc)[:80])]
            else:
                rec.monitor("layout-to_dict")
                probs = layout_problems(parsed)
            for p in probs:
                rec.violation("%s/layout:%s" % (tag, p[:60]), "%s: %s" % (cfg, p), witness)
            rec.monitor("roundtrip")
            obs = model.model_of(loaded)
            loaded_models.setdefault(fmt, obs)
            for item in model.diff(before, obs):
                key = classify.classify_item(item, tag)
                rec.violation(key, "%s: %s.%s expected %r got %r" % (
                    cfg, item["path"], item["field"], item["exp"], item["obs"]), witness)
            rec.monitor("save-pure")
            after = model.model_of(doc)
            if model.diff(before, after):
                rec.violation("%s/save-mutates-document" % tag, "%s: %r" % (cfg, model.diff(before, after)[:2]),
                              witness)
        if "JSON" in loaded_models and "YAML" in loaded_models:
            rec.monitor("json-vs-yaml")
            for item in model.diff(loaded_models["JSON"], loaded_models["YAML"]):
                key = classify.classify_item(item, "json-vs-yaml")
                rec.violation(key, "%s.%s json %r yaml %r" % (item["path"], item["field"], item["exp"], item["obs"]),
                              case)


def foreign_safe(spec):
    import copy
    spec = copy.deepcopy(spec)
    for _, n in model.walk(spec):
        if n["k"] == "prop" and n["dtype"] and n["dtype"].endswith("-tuple"):
            n["values"] = [[x.strip() or "e" for x in v] for v in n["values"]
                           if all(not set(x) & set(",;()[]\"") for x in v)]
    return spec


def run_foreign(case, ctx):
    from odml.tools.odmlparser import ODMLReader
    from odml.tools.dict_parser import DictReader
    rec = ctx.rec
    spec = dec(case["spec"])
    rng = ctx.rng("foreign", case.get("i", 0))
    rec.evaluation()
    d = emit.dict_from_model(spec, rng)
    rec.case(core.h(["foreign", enc(no_ids(spec))]), True)
    rec.count("kind", "foreign")
    variants = [("json", lambda: ODMLReader("JSON", show_warnings=False).from_string(json.dumps(d, ensure_ascii=rng.random() < 0.5))),
                ("yaml", lambda: ODMLReader("YAML", show_warnings=False).from_string(yaml.safe_dump(d, allow_unicode=True))),
                ("dict-strict", lambda: DictReader(show_warnings=False).to_odml(json.loads(json.dumps(d)))),
                ("dict-lenient", lambda: DictReader(show_warnings=False, ignore_errors=True).to_odml(json.loads(json.dumps(d))))]
    for name, fn in variants:
        rec.monitor("foreign")
        with warnings.catch_warnings():
            warnings.simplefilter("ignore")
            try:
                loaded = fn()
            except Exception as exc:
                rec.violation("dict-foreign/rejected:%s:%s" % (name, type(exc).__name__),
                              "%s reader raised %r on a foreign 1.1 dictionary" % (name, str(exc)[:200]),
                              dict(case, emitted=enc(d)))
                continue
        obs = model.model_of(loaded)
        for item in model.diff(spec, obs):
            key = classify.classify_item(item, "dict-foreign")
            rec.violation(key, "%s: %s.%s expected %r got %r" % (
                name, item["path"], item["field"], item["exp"], item["obs"]), dict(case, emitted=enc(d)))



def edit_doc(doc, rng):
    """A few public-API edits that change what a second write must contain."""
    import odml
    secs = list(doc.itersections())
    s = rng.choice(secs)
    odml.Property("reuse_added_%d" % rng.randrange(10 ** 6), values=[rng.randrange(100)], parent=s)
    if rng.random() < 0.7:
        s.definition = "edited definition %d" % rng.randrange(10 ** 6)
    props = [p for x in secs for p in x.properties if p.dtype == "int" and p.values]
    if props:
        rng.choice(props).append(rng.randrange(10 ** 6))
    doc.author = "edited author"


def run_reuse(case, ctx, fmts, strip):
    """One writer (and one reader) instance used twice: the second result must describe the edited document."""
    import random
    from odml.tools.odmlparser import ODMLWriter, ODMLReader
    rec = ctx.rec
    spec = dec(case["spec"])
    with warnings.catch_warnings():
        warnings.simplefilter("ignore")
        try:
            doc = gen.build_doc(spec)
        except Exception:
            return
        for fmt in fmts:
            rec.monitor("instance-reuse")
            rec.evaluation()
            rng = random.Random("reuse|%s|%s" % (case.get("i"), fmt))
            from checks.c01_xml import reuse_after_refusal
            reuse_after_refusal(rec, case, fmt, doc)
            try:
                w = ODMLWriter(fmt)
                r = ODMLReader(fmt, show_warnings=False)
                first = w.to_string(doc)
                m_first = strip(model.model_of(doc))
                l1 = r.from_string(first)
                edit_doc(doc, rng)
                second = w.to_string(doc)
                l2 = r.from_string(second)
            except Exception as exc:
                rec.count("reuse-skipped", type(exc).__name__)
                continue
            exp = strip(model.model_of(doc))
            if l1 is None or l2 is None:
                continue
            first_ok = not model.diff(m_first, strip(model.model_of(l1)))
            d = model.diff(exp, strip(model.model_of(l2)))
            if d and first_ok:
                if not model.diff(m_first, strip(model.model_of(l2))):
                    rec.violation("%s/instance-reuse/second-write-describes-the-document-before-the-edit" % fmt.lower(),
                                  "%r" % d[:2], dict(case, reuse=fmt))
                else:
                    rec.violation("%s/instance-reuse/second-result-differs:%s" % (fmt.lower(), d[0]["field"]), "%r" % d[:2],
                                  dict(case, reuse=fmt))


def run(ctx):
    from vlib import env
    sdir = env.scratch()
    rec = ctx.rec
    ndocs = ctx.pick(1500, 100000)
    lat = lattice_cases()
    for i, (n, vpos, cname, where, dtype, vals) in enumerate(lat):
        if not ctx.mine(i):
            continue
        case = {"kind": "lattice", "spec": enc(lattice_spec(vals, dtype, i)),
                "configs": [["JSON", "string"], ["YAML", "string"], ["YAML", "save-load"]],
                "lattice": [n, vpos, cname, where, dtype]}
        run_case(case, ctx, sdir)
        rec.count("lattice", "%d-values:%s" % (n, cname))
    for i in range(ndocs):
        if not ctx.mine(i):
            continue
        rng = ctx.rng("doc", i)
        rng.seed("C02|%s|doc|%d" % (ctx.seed, i))
        spec = gen.gen_doc(rng, max_nodes=rng.choice([4, 10, 25] if ctx.quick() else [4, 10, 25, 60, 200]),
                           depth=rng.choice([3, 3, 5]), hostile=rng.choice([0.1, 0.5, 0.8]), links=True)
        case = {"kind": "generated", "spec": enc(spec), "i": i}
        if i < 6:
            rec.sample({"nodes": gen.count_nodes(spec), "first_section": enc(no_ids(spec["sections"][0]))
                        if gen.count_nodes(spec["sections"][0]) < 6 else "(large)"})
        run_case(case, ctx, sdir)
        if i % 4 == 1 and len(spec["sections"]) > 1:
            run_case(dict(case, resolve_link=True), ctx, sdir)
        if i % 3 == 0:
            run_reuse(case, ctx, ["JSON", "YAML"], (lambda m: m))
        if True:
            # the foreign tool describes the document in its normal form (what the API stores: no
            # sub-second part, naive times), so the model of the built document is emitted
            try:
                with warnings.catch_warnings():
                    warnings.simplefilter("ignore")
                    normal = model.model_of(gen.build_doc(spec))
            except Exception:
                normal = None
            if normal is not None:
                from checks.c01_xml import restate_dtypes
                restate_dtypes(normal, gen.normal_form(spec), rec)   # the dtype the specification names, not what the build made of it
                run_foreign({"spec": enc(foreign_safe(normal)), "i": i}, ctx)
        if ctx.time_left() < 0:
            rec.extra["stopped_early_at_doc"] = i
            break


def replay(case, ctx):
    from vlib import env
    if "emitted" in case:
        run_foreign(case, ctx)
    else:
        run_case(case, ctx, env.scratch())
