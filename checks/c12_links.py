"""C12 -- resolving links and includes only adds copies; cleaning restores the document.

Reference model (independent path resolver + expected child sets on pure-data models).  Laws on every
generated document:
  finalize   every linking Section = own children + a copy (ids ignored) of each target child whose name it
             does not use; target Sections and everything outside linking Sections unchanged
  restore    (no shared child name) clean(finalize(D)) == D except for the link text, and every stored
             link/include still designates the same target (model resolver and library agree)
  cycles     repeated finalize/clean cycles are stable
  file       a file saved after clean holds the link/include element and none of the copied children;
             load + finalize of it gives the finalized document again
"""
import os
import uuid
import warnings

from vlib import core, gen, model
from vlib.model import enc, dec, kind
from checks.c13_merge import S, P

PROPERTY = "C12"
LEVEL = "exploration"
SHARDS = {"quick": 8, "thorough": 16}
RULE = ("seeded documents with a target zone (Sections at depth 1-3, every dtype) and 1-4 linking Sections (never "
        "nested, never targets; absolute and relative link paths, or include URLs file:...#path / file:... into a "
        "second generated file), linking Sections empty / with own children of other names (restoration law) / "
        "of the same names (first sentence only); linking and target zones directly below the Document or below a shared "
        "ancestor (relative canonical links); target sub-Sections that use their id as name; finalize, clean, 1-3 cycles, save/load in between; "
        "non-trivial = at least one link whose target has children; distinct = hash of the spec without ids")
ASSUMPTIONS = ["quantifier respected: no chained or nested links, target is neither the linking Section nor one of "
               "its ancestors / descendants",
               "for children whose name the linking Section already uses only 'target and rest of the document "
               "unchanged' is judged (their content follows merge semantics, C13)",
               "resources are file: URLs in the private scratch directory; nothing touches the network"]
REQUIRED_MONITORS = ["finalize", "restore", "cycles", "file"]


# ---- independent resolver on models

def find_path(root_model, path_list):
    cur = root_model
    for name in path_list:
        nxt = [c for c in cur.get("sections", []) if c["name"] == name]
        if not nxt:
            return None
        cur = nxt[0]
    return cur


def resolve(doc_model, linker_path, link):
    """linker_path: list of names from the document to the linking Section; link: path text."""
    if link.startswith("/"):
        return [p for p in link.split("/") if p != ""]
    cur = list(linker_path)
    for step in link.split("/"):
        if step == "..":
            if not cur:
                return None
            cur.pop()
        elif step in (".", ""):
            continue
        else:
            cur.append(step)
    return cur


def all_secs(m, path=()):
    for c in m.get("sections", []):
        p = path + (c["name"],)
        yield p, c
        for x in all_secs(c, p):
            yield x


def rel_path(src, dst):
    """Relative link text from Section path src to Section path dst (tuples of names)."""
    i = 0
    while i < len(src) and i < len(dst) and src[i] == dst[i]:
        i += 1
    ups = len(src) - i
    parts = [".."] * ups + list(dst[i:])
    return "/".join(parts) if parts else "."


# ---- generator

def gen_case(rng, idx, sdir):
    def props(n, prefix):
        out = []
        for i in range(n):
            p = gen.gen_prop(rng, "%s%d" % (prefix, i), hostile=0.1, cards=False, tuples=False)
            if rng.random() < 0.15:
                p["dtype"], p["values"] = "2-tuple", [["1", "2"], ["x", ""]][:rng.choice([1, 2])]
            p["dependency"] = p["dependency_value"] = None
            if prefix == "tp" and rng.random() < 0.15:
                p["name"] += "\u00e9"          # a composed accented letter: a name with a look-alike (see "look-alike-names")
            if rng.random() < 0.1:
                # a Property that was created without a name: its id serves as name
                p["id"] = p["name"] = str(uuid.UUID(int=rng.getrandbits(128), version=4))
            out.append(p)
        return out

    def tsec(name, depth):
        s = S(name, rng.choice(["t", "u", "Hardware/Amplifier", "Mixed Case", "UPPER"]), props(rng.choice([0, 1, 2]), "tp"),
              definition=rng.choice([None, "target def"]), reference=rng.choice([None, "tref"]))
        if depth > 0:
            # (one name in ten carries a '#', the character that separates the url from the path in an include)
            s["sections"] = [tsec("%s_%d%s" % (name, i, "#2" if rng.random() < 0.1 else ""), depth - 1) for i in range(rng.choice([0, 1, 2]))]
            if s["sections"] and rng.random() < 0.15:
                # Sections and Properties have separate name spaces: a Property may carry the name of a sub-Section
                twin = props(1, "tw")[0]
                twin["name"] = s["sections"][0]["name"]
                s["properties"].append(twin)
            for c in s["sections"]:
                if rng.random() < 0.12:
                    # a Section that was created without a name: its id serves as name
                    c["id"] = c["name"] = str(uuid.UUID(int=rng.getrandbits(128), version=4))
        return s
    targets = [tsec("T%d" % i, rng.choice([0, 1, 2])) for i in range(rng.choice([1, 2, 3]))]
    if rng.random() < 0.15:
        # a sibling *ahead of* a target whose name differs from the target's only in letter case: another Section
        k_ = rng.randrange(len(targets))
        targets.insert(k_, tsec(targets[k_]["name"].lower(), 1))
    padded = rng.random() < 0.12
    if padded:
        # legal names with a leading / trailing blank, next to a sibling that carries the trimmed name
        t = rng.choice(targets)
        trimmed = t["name"]
        t["name"] = rng.choice([trimmed + " ", " " + trimmed])
        if rng.random() < 0.6:
            targets.append(tsec(trimmed, 1))
    zone_t = S("targets", "zone", [], targets)
    # both zones directly below the Document (canonical links are absolute) or below a shared ancestor
    # (the canonical link between them is relative)
    prefix = rng.choice([(), (), ("world",), ("world", "lab")])
    tpaths = [prefix + ("targets",) + p for p, _ in all_secs(zone_t)]
    exts = []
    if rng.random() < 0.45:
        for k in range(rng.choice([1, 2, 2])):
            ext_secs = [tsec("E%d" % i, rng.choice([0, 1])) for i in range(rng.choice([1, 2]))]
            exts.append({"k": "doc", "id": None, "author": None, "version": None, "date": None, "repository": None,
                         "sections": ext_secs})
    ext = exts[0] if exts else None
    nlinks = rng.choice([1, 1, 2, 3, 4])
    used_tops = set()
    used_beside = []
    linkers = []
    links = []
    for i in range(nlinks):
        mode = rng.choice(["empty", "other-names", "other-names", "same-names"])
        use_ext = ext is not None and rng.random() < (0.6 if not padded else 0.2)
        which = rng.randrange(len(exts)) if use_ext else 0
        if use_ext:
            ext = exts[which]
            ext_targets = [p for p, _ in all_secs(ext)]
        depth = rng.choice([0, 1, 2])
        hnames = ["h%d_%d" % (i, d) for d in range(depth)]
        if not use_ext and rng.random() < 0.3:
            # the path of the linking Section repeats names of the target's path at the same depth below the fork
            # (/exp/day1/rec/L -> /exp/day2/rec/T)
            tp_probe = rng.choice(tpaths)
            below = list(tp_probe[len(prefix) + 1:-1])[:2]
            first = below[0] if below else None
            if below and first not in used_tops and all(" " not in b for b in below):
                hnames, depth, forced_tp = below, len(below), tp_probe
                used_tops.add(first)
            else:
                forced_tp = None
        else:
            forced_tp = None
        lpath = prefix + ("linkers",) + tuple(hnames) + ("L%d" % i,)
        if use_ext:
            tp = rng.choice(ext_targets)
            tmodel = find_path(ext, list(tp))
        else:
            tp = forced_tp or rng.choice(tpaths)
            tmodel = find_path({"sections": [zone_t]}, list(tp[len(prefix):]))
        own_p, own_s = [], []
        if mode == "other-names":
            own_p = props(rng.choice([1, 2]), "own")
            own_s = [S("ownsec", "t", props(1, "op"))] if rng.random() < 0.5 else []
            import unicodedata
            for tc in tmodel["properties"]:
                nfd = unicodedata.normalize("NFD", tc["name"])
                if nfd != tc["name"]:
                    # an own child whose name differs from the target child's only in its Unicode form
                    # (decomposed accent): another name, so both are there after resolving
                    own_p.append(P(nfd, "string", ["own look-alike"]))
        elif mode == "same-names":
            if tmodel["properties"]:
                own_p = [P(tmodel["properties"][0]["name"], "string", ["own value"])]
            if tmodel["sections"]:
                own_s = [S(tmodel["sections"][0]["name"], tmodel["sections"][0]["type"], props(1, "op"))]
            if not own_p and not own_s:
                mode = "empty"
        beside = (not use_ext and not used_beside and len(tp) == len(prefix) + 2 and not padded and rng.random() < 0.4
                  and mode != "same-names")
        if beside:
            # the linking Section sits next to its target and its name is a proper prefix of the target's name
            # (/targets/T -> /targets/T0): paths that are related as strings, not as paths
            used_beside.append(True)
            depth, hnames = 0, []
            lpath = prefix + ("targets", "T")
        L = S("L%d" % i if not beside else "T", rng.choice(["t", "lt"]), own_p, own_s,
              definition=rng.choice([None, "linker def"]))
        if use_ext:
            how = rng.choice(["url#path", "url#path", "url-only"])
            if how == "url-only":
                tp = (ext["sections"][0]["name"],)
            L["include"] = "@EXT%d@" % which + ("#/" + "/".join(tp) if how == "url#path" else "")
            links.append({"linker": list(lpath), "kind": "include", "target": list(tp), "mode": mode, "ext": which})
        else:
            if rng.random() < 0.5:
                L["link"] = "/" + "/".join(tp)
            else:
                L["link"] = rel_path(lpath, tp)
            links.append({"linker": list(lpath), "kind": "link", "target": list(tp), "mode": mode})
        node = L
        for d in reversed(range(depth)):
            node = S(hnames[d], "holder", props(rng.choice([0, 1]), "hp"), [node])
        if beside:
            zone_t["sections"].append(node)
            if links and links[-1]["kind"] == "link":
                links[-1]["linker"] = list(lpath)
                L["link"] = rng.choice(["/" + "/".join(tp), rel_path(lpath, tp)])
            continue
        linkers.append(node)
    zone_l = S("linkers", "zone", [], linkers)
    top = [zone_t, zone_l]
    if rng.random() < 0.5:
        top.reverse()
    for nm in reversed(prefix):
        top = [S(nm, "zone", props(rng.choice([0, 1]), "wp"), top)]
    doc = {"k": "doc", "id": None, "author": "a", "version": None, "date": None, "repository": None, "sections": top}
    return {"doc": enc(doc), "ext": [enc(e) for e in exts] if exts else None, "links": links, "i": idx, "padded": padded,
            "resolve_via": rng.choice(["finalize", "finalize", "setter"])}


class _SkipFileStage(Exception):
    pass


def section_at(doc, path):
    cur = doc
    for name in path:
        cur = cur.sections[name]
    return cur


def strip_links(m):
    out = {k: v for k, v in m.items() if k not in ("link", "sections", "properties")}
    if "properties" in m:
        out["properties"] = m["properties"]
    out["sections"] = [strip_links(c) for c in m.get("sections", [])]
    return out


def run_case(case, ctx, sdir):
    import odml
    from odml import terminology
    rec = ctx.rec
    rec.evaluation()
    docspec = dec(case["doc"])
    exts = [dec(e) for e in case["ext"]] if case["ext"] else []
    with warnings.catch_warnings():
        warnings.simplefilter("ignore")
        urls, paths = [], []
        for k, ext in enumerate(exts):
            # every resource has the same base name; only the directory differs
            d = os.path.join(sdir, "c12ext", "%s_%d_%d_%d" % (ctx.seed, case["i"], os.getpid(), k))
            os.makedirs(d, exist_ok=True)
            paths.append(os.path.join(d, "resource.xml"))
            urls.append("file://" + paths[-1])

        def patch(s):
            if s.get("include"):
                for k, u in enumerate(urls):
                    s["include"] = s["include"].replace("@EXT%d@" % k, u)
            for c in s["sections"]:
                patch(c)
        for s in docspec["sections"]:
            patch(s)
        early = None
        if exts and case.get("i", 0) % 4 == 0 and not any(os.path.exists(p_) for p_ in paths):
            # the resources are asked for once before they exist (a first attempt that has to fail and change nothing);
            # they are written afterwards and everything below must work as if the attempt had not been made
            rec.count("resource", "asked-for-before-it-existed")
            # (what a failed finalize leaves behind is C06's subject, a known finding there; the attempt's document is dropped)
            try:
                early = gen.build_doc(docspec)
                early.finalize()
            except Exception:
                pass
            early = None
        for ext, path in zip(exts, paths):
            odml.save(gen.build_doc(ext), path)
        doc = gen.build_doc(docspec)
        from checks.c01_xml import no_ids
        links = case["links"]
        nontriv = False
        m0 = model.model_of(doc)
        # model resolver agrees with the generator about every target
        for l in links:
            L = find_path(m0, l["linker"])
            if l["kind"] == "link":
                r = resolve(m0, l["linker"], L["link"])
                if r != l["target"]:
                    raise AssertionError("generator/resolver disagree: %r %r" % (r, l))
        rec.case(core.h([enc(no_ids(docspec)), [enc(no_ids(e)) for e in exts]]), True)
        # ---- finalize (or: the same resolution through the link / include setters of the attached Sections)
        via = case.get("resolve_via", "finalize")
        rec.count("resolved-via", via)
        try:
            if via == "setter":
                for l in links:
                    Lobj = section_at(doc, l["linker"])
                    if l["kind"] == "link":
                        Lobj.link = Lobj.link
                    else:
                        Lobj.include = Lobj.include
            else:
                doc.finalize()
        except Exception as exc:
            rec.violation("%s/raised-%s" % ("finalize" if via == "finalize" else "resolve-by-setter", type(exc).__name__),
                          repr(exc), case)
            return
        m1 = model.model_of(doc)
        term_docs = [terminology.terminologies.get(u) for u in urls]
        term_ms = [model.model_of(t) if t is not None else None for t in term_docs]
        rec.monitor("finalize")
        linker_paths = [tuple(l["linker"]) for l in links]
        for l in links:
            L0, L1 = find_path(m0, l["linker"]), find_path(m1, l["linker"])
            if l["kind"] == "link":
                T = find_path(m0, l["target"])
            else:
                term_m = term_ms[l.get("ext", 0)]
                if term_m is None:
                    rec.violation("finalize/include-resource-not-cached", "%r" % urls[l.get("ext", 0)], case)
                    continue
                T = find_path(term_m, l["target"])
                if T is None:
                    rec.violation("finalize/include/cached-resource-lacks-target", "%r" % (l["target"],), case)
                    continue
            if T["properties"] or T["sections"]:
                nontriv = True
            rec.count("links", "%s/%s" % (l["kind"], l["mode"]))
            for lst in ("properties", "sections"):
                own = {c["name"] for c in L0[lst]}
                after = {c["name"]: c for c in L1[lst]}
                for tc in T[lst]:
                    if tc["name"] in own:
                        continue
                    ac = after.get(tc["name"])
                    if ac is None:
                        rec.violation("finalize/%s/target-child-not-copied:%s" % (l["kind"], lst),
                                      "%r lacks %r" % (l["linker"], tc["name"]), case)
                    else:
                        d = model.diff(tc, ac, ignore=("id",))
                        if d:
                            rec.violation("finalize/%s/copy-differs:%s" % (l["kind"], d[0]["field"]), repr(d[:2]), case)
                        if ac["id"] == tc["id"]:
                            rec.violation("finalize/%s/copy-keeps-target-id" % l["kind"], tc["name"], case)
                extra = set(after) - own - {c["name"] for c in T[lst]}
                if extra:
                    rec.violation("finalize/%s/extra-children:%s" % (l["kind"], lst), repr(sorted(extra)), case)
                for oc in L0[lst]:
                    if oc["name"] not in {c["name"] for c in T[lst]}:
                        if oc["name"] not in after or model.diff(oc, after[oc["name"]]):
                            rec.violation("finalize/%s/own-child-changed:%s" % (l["kind"], lst), oc["name"], case)
        # everything outside linking Sections (targets included) unchanged
        def outside(ma, mb, path):
            if tuple(path) in linker_paths:
                return
            for f in ma:
                if f in ("sections",):
                    continue
                if f == "properties":
                    if model.diff({"k": "sec", "name": "", "properties": ma[f]}, {"k": "sec", "name": "", "properties": mb.get(f, [])}):
                        rec.violation("finalize/outside-linking-section-changed:properties", "/".join(path), case)
                elif not model.same(ma[f], mb.get(f)):
                    rec.violation("finalize/outside-linking-section-changed:%s" % f, "/".join(path), case)
            if [c["name"] for c in ma["sections"]] != [c["name"] for c in mb["sections"]]:
                rec.violation("finalize/outside-linking-section-changed:sections", "/".join(path), case)
                return
            for ca, cb in zip(ma["sections"], mb["sections"]):
                outside(ca, cb, path + [ca["name"]])
        outside(m0, m1, [])
        for term_doc, term_m, url in zip(term_docs, term_ms, urls):
            if term_doc is None:
                continue
            # the included resource (a cached document) must be untouched as well
            term_after = model.model_of(term_doc)
            if model.diff(term_m, term_after):
                rec.violation("finalize/include/target-document-changed", repr(model.diff(term_m, term_after)[:2]), case)
            fresh = model.model_of(odml.load(url[7:], show_warnings=False))
            if model.diff(fresh, term_after):
                rec.violation("finalize/include/cached-resource-differs-from-file:%s" % model.diff(fresh, term_after)[0]["field"],
                              repr(model.diff(fresh, term_after)[:2]), case)
        # ---- clean
        restorable = all(l["mode"] != "same-names" for l in links)
        try:
            doc.clean()
        except Exception as exc:
            rec.violation("clean/raised-%s" % type(exc).__name__, repr(exc), case)
            return
        m2 = model.model_of(doc)
        rec.monitor("restore")
        if restorable:
            d = model.diff(strip_links(m0), strip_links(m2))
            for item in d:
                lp = [l for l in links if "/" + "/".join(l["linker"]) == item["path"] or
                      item["path"].startswith("/" + "/".join(l["linker"]) + "/")]
                where = "linking-section" if lp else "elsewhere"
                rec.violation("restore/%s/%s:%s" % (where, item["field"],
                                                    "filled-from-target" if item["exp"] is None and item["field"] in ("definition", "reference")
                                                    else "differs"),
                              "after clean: %s.%s expected %r got %r" % (item["path"], item["field"], item["exp"], item["obs"]), case)
        for l in links:
            L2 = find_path(m2, l["linker"])
            Lobj = section_at(doc, l["linker"])
            if l["kind"] == "link":
                if not L2["link"]:
                    rec.violation("restore/link-lost", repr(l["linker"]), case)
                    continue
                r = resolve(m2, l["linker"], L2["link"])
                if r != l["target"]:
                    rec.violation("restore/link-designates-other-target", "%r -> %r, expected %r" % (L2["link"], r, l["target"]), case)
                try:
                    got = Lobj.get_section_by_path(L2["link"])
                    if got is not section_at(doc, l["target"]):
                        rec.violation("restore/link-resolves-to-other-object", L2["link"], case)
                except Exception as exc:
                    rec.violation("restore/link-unresolvable-%s" % type(exc).__name__, "%r: %r" % (L2["link"], exc), case)
            else:
                if L2["include"] != find_path(m0, l["linker"])["include"]:
                    rec.violation("restore/include-text-changed", repr(L2["include"]), case)
            if Lobj.is_merged:
                rec.violation("restore/still-merged-after-clean", repr(l["linker"]), case)
        # ---- file saved after clean (XML trims names: documents with blank-padded names skip the file stage)
        rec.monitor("file")
        fpath = os.path.join(sdir, "c12_%d.xml" % os.getpid())
        try:
            if case.get("padded"):
                raise _SkipFileStage()
            odml.save(doc, fpath)
            from lxml import etree
            root = etree.parse(fpath).getroot()
            for l in links:
                el = root
                for name in l["linker"]:
                    el = [s for s in el.findall("section") if s.findtext("name") == name][0]
                tag = "link" if l["kind"] == "link" else "include"
                if not el.findtext(tag):
                    rec.violation("file/%s-element-missing" % tag, repr(l["linker"]), case)
                own = find_path(m0, l["linker"])
                names_p = {p.findtext("name") for p in el.findall("property")}
                names_s = {s.findtext("name") for s in el.findall("section")}
                if restorable and (names_p != {c["name"] for c in own["properties"]} or
                                   names_s != {c["name"] for c in own["sections"]}):
                    rec.violation("file/referenced-content-written", "%r has %r %r" % (l["linker"], names_p, names_s), case)
            back = odml.load(fpath, show_warnings=False)
            back.finalize()
            from checks.c01_xml import strip_model   # the XML form trims text / carries uncertainty as text
            d = model.diff(strip_model(strip_links(m1)), strip_model(strip_links(model.model_of(back))), ignore=("id",))
            if d and restorable:
                rec.violation("file/reload+finalize-differs:%s" % d[0]["field"], repr(d[:2]), case)
        except _SkipFileStage:
            rec.count("file-stage", "skipped:padded-names")
        except Exception as exc:
            rec.violation("file/raised-%s" % type(exc).__name__, repr(exc), case)
        # ---- repeated cycles
        rec.monitor("cycles")
        try:
            for c in range(case.get("cycles", 2)):
                doc.finalize()
                mf = model.model_of(doc)
                d = model.diff(strip_links(m1), strip_links(mf), ignore=("id",))
                if d and restorable:
                    rec.violation("cycles/finalize-%d-differs:%s" % (min(c, 1) + 2, d[0]["field"]), repr(d[:2]), case)
                    break
                doc.clean()
                mc = model.model_of(doc)
                d = model.diff(strip_links(m2), strip_links(mc))
                if d and restorable:
                    rec.violation("cycles/clean-%d-differs:%s" % (min(c, 1) + 2, d[0]["field"]), repr(d[:2]), case)
                    break
        except Exception as exc:
            rec.violation("cycles/raised-%s" % type(exc).__name__, repr(exc), case)
        if not nontriv:
            rec.trivial += 1


def run(ctx):
    from vlib import env
    sdir = env.scratch()
    rec = ctx.rec
    for i in range(ctx.pick(1500, 150000)):
        if not ctx.mine(i):
            continue
        rng = ctx.rng("doc", i)
        rng.seed("C12|%s|%d" % (ctx.seed, i))
        case = gen_case(rng, i, sdir)
        case["cycles"] = rng.choice([1, 2, 3])
        run_case(case, ctx, sdir)
        if i < 3:
            rec.sample({"links": case["links"]})
        if ctx.time_left() < 0:
            break


def replay(case, ctx):
    from vlib import env
    run_case(case, ctx, env.scratch())
