"""C16 -- readers are total: a Document, or a ParserException -- never anything else.

Totality oracle over hostile inputs.  For every input and reader configuration the outcome must be a
Document (which then has to satisfy the C03/C04 predicates of vlib.hist.facts), a ParserException
(InvalidVersionException when an independent parse sees an odML root / dictionary of another version),
or -- only for ODMLReader on text that is not JSON / YAML at all -- None.  In lenient mode an input that an
independent lxml parse finds to be well-formed XML with root <odML version="1.1"> (or a dictionary shaped like
the 1.1 layout) must yield a Document.  Every call runs under a logical step budget."""
import copy
import io
import json
import os
import random
import warnings

import yaml

from vlib import core, gen, model, hist, budget
from vlib.model import enc, dec, kind
from models import emit, odml11

PROPERTY = "C16"
LEVEL = "exploration"
SHARDS = {"quick": 8, "thorough": 16}
RULE = ("three input families per format: (1) random text / bytes-like strings, (2) grammar-generated trees over the "
        "odML element / key names with wrong nesting, repeated, missing, unknown and differently-cased elements, XML "
        "attributes, processing instructions, comments, CDATA, empty text, unparsable values, dates, ids and "
        "cardinalities, duplicate sibling names, (3) structural mutations (delete, duplicate, swap, rename, re-type a "
        "subtree, corrupt a scalar) of valid files written by the library, (4) valid files with exactly one injected defect "
        "(duplicate sibling, unknown element, unconvertible value, nameless Property, XML attribute, bad cardinality, bad id) "
        "after which valid siblings follow: the lenient reader must keep every valid part; x XML strict/lenient x from_string/from_file, "
        "ODMLReader XML/JSON/YAML string+file, DictReader strict/lenient, odml.load; non-trivial = input that is "
        "well-formed for its format (the reader gets past the tokenizer); distinct = hash of the input text")
ASSUMPTIONS = ["None from ODMLReader for text that is not JSON / YAML is the documented 'could not parse' outcome",
               "'shaped like an odML dictionary' = mappings / lists nested as the 1.1 layout prescribes (Document "
               "mapping, sections/properties lists of mappings); keys and scalars arbitrary",
               "step budget = 3 million Python calls per reader call (>= 1000x what valid files of this size need)"]
REQUIRED_MONITORS = ["totality", "lenient-never-raises", "returned-documents-wellformed", "lenient-keeps-valid-parts"]

BUDGET = 3000000
XML_TAGS = ["odML", "section", "property", "name", "type", "id", "value", "definition", "reference", "unit", "uncertainty",
            "dependency", "dependencyvalue", "dependency_value", "value_origin", "val_cardinality", "sec_cardinality",
            "prop_cardinality", "link", "include", "repository", "author", "date", "version", "Section", "NAME", "foo",
            "values", "properties", "sections"]
SCALARS = ["", " ", "x", "1", "-3", "1.5", "true", "False", "2020-01-02", "2020-13-45", "12:30:00", "25:61:61",
           "2020-01-02 03:04:05", "[1,2]", "[a,b", "(1;2)", "(1;2;3)", "[(1;2),(3;4)]", "(1, 2)", "(2, 1)", "(a, b)",
           "(None, 3)", "(-1, 2)", "int", "string", "2-tuple", "bogus", "0-tuple", "6ba7b810-9dad-41d1-80b4-00c04fd430c8",
           "6BA7B810-9DAD-41D1-80B4-00C04FD430C8", "zz", "/a/b", "../x", "file:///nonexistent.xml", "ä", "\U0001F600",
           "a,b", 'q"r', "n.s.", "l1\nl2", "None", "null", "~", "(²,3)", "(1,²)", "(١,٣)", "(1, ⑦)", "(0,0)", "(3,3)",
           "(None,None)", "( 1 , 2 )", "(1,2", "1,2)", "(,)", "(1,)", "((1,2))", "(1e3,2)", "(+1,2)", "(1.0,2)", "٣", "²"]


# ---------------------------------------------------------------------------------------------
# input generators

def rand_text(rng):
    kind_ = rng.randrange(8)
    if kind_ == 0:
        return "".join(chr(rng.randrange(32, 127)) for _ in range(rng.randrange(0, 60)))
    if kind_ == 1:
        return "".join(chr(rng.choice([rng.randrange(1, 0x250), rng.randrange(0x4e00, 0x4f00), 0x1F600, 9, 10, 13]))
                       for _ in range(rng.randrange(1, 40)))
    if kind_ == 2:
        return rng.choice(["", " ", "\n", "\t", "<", ">", "<odML", "<odML/>", "<odML version='1.1'", "</odML>", "{", "}", "[",
                           "]", "{}", "[]", "null", "~", "---", "- a", "a: b", "a: [", "{\"Document\": ", "!!python/object:os.system",
                           "&a *a", "? ", "%YAML 9.9", "\x00", "﻿<odML version=\"1.1\"/>", "<?xml version=\"1.0\"?>",
                           "<!DOCTYPE odML [<!ENTITY a \"b\">]><odML version=\"1.1\">&a;</odML>", "<a:b/>", "<odML version=\"1.1\"/>x"])
    if kind_ == 3:
        return json.dumps(rng.choice([1, None, True, "s", [1, 2], {"a": 1}, {"Document": 1}, {"Document": None, "odml-version": "1.1"},
                                      {"Document": [], "odml-version": "1.1"}, {"Document": {}, "odml-version": 1.1},
                                      {"Document": {}, "odml-version": "1.0"}, {"odml-version": "1.1"}, [{"Document": {}}]]))
    if kind_ == 4:
        return "<odML version=\"%s\">%s</odML>" % (rng.choice(["1.1", "1.0", "1", "", "2"]), rand_text(rng)[:30].replace("<", ""))
    if kind_ == 5:
        return "<%s version=\"1.1\"><section><name>x</name><type>t</type></section></%s>" % ((rng.choice(["odml", "ODML", "doc", "odML "]),) * 2)
    if kind_ == 6:
        return yaml.safe_dump(rng.choice([{"Document": {"sections": "x"}, "odml-version": "1.1"},
                                          {"Document": {"sections": [1, 2]}, "odml-version": "1.1"},
                                          {"Document": {"sections": [{"properties": 5}]}, "odml-version": "1.1"}]))
    return "Document:\n  sections:\n  - name: %s\n    type: t\n\todml-version: '1.1'\n" % rand_text(rng)[:10]


def rand_xml_tree(rng, depth=0):
    """Grammar over the odML element names: mostly sensible, often wrong."""
    def leaf(tag):
        t = rng.choice(SCALARS) if rng.random() < 0.7 else gen.rand_text(rng, 0.8)
        t = t.replace("&", "&amp;").replace("<", "&lt;")
        if "\x00" in t or any(ord(c) < 9 for c in t):
            t = "ctl"
        extra = ""
        r = rng.random()
        if r < 0.05:
            extra = ' attr="1"'
        elif r < 0.08:
            return "<%s/>" % tag
        elif r < 0.11:
            return "<%s><![CDATA[%s]]></%s>" % (tag, t.replace("]]>", ""), tag)
        elif r < 0.14:
            return "<%s><!-- c -->%s</%s>" % (tag, t, tag)
        elif r < 0.16:
            return "<%s><b>%s</b></%s>" % (tag, t, tag)
        return "<%s%s>%s</%s>" % (tag, extra, t, tag)

    def prop(d):
        parts = []
        if rng.random() < 0.9:
            parts.append(leaf("name") if rng.random() < 0.8 else "<name>%s</name>" % rng.choice(["p", "q", "p"]))
        for tag in rng.sample(["value", "type", "unit", "uncertainty", "id", "definition", "reference", "dependency",
                               "dependencyvalue", "value_origin", "val_cardinality"], rng.randrange(0, 6)):
            parts.append(leaf(tag))
        if rng.random() < 0.15:
            parts.append(leaf(rng.choice(XML_TAGS)))
        if rng.random() < 0.1:
            parts.append(leaf("value"))
        if rng.random() < 0.05:
            parts.append(sec(d + 1))
        rng.shuffle(parts)
        return "<property>%s</property>" % "".join(parts)

    def sec(d):
        parts = []
        if rng.random() < 0.9:
            parts.append("<name>%s</name>" % rng.choice(["a", "b", "a", "s1"]) if rng.random() < 0.6 else leaf("name"))
        if rng.random() < 0.85:
            parts.append(leaf("type") if rng.random() < 0.4 else "<type>t</type>")
        for tag in rng.sample(["id", "definition", "reference", "repository", "link", "include", "sec_cardinality",
                               "prop_cardinality"], rng.randrange(0, 4)):
            parts.append(leaf(tag))
        for _ in range(rng.choice([0, 1, 1, 2, 3])):
            parts.append(prop(d))
        if d < 3:
            for _ in range(rng.choice([0, 0, 1, 2])):
                parts.append(sec(d + 1))
        if rng.random() < 0.1:
            parts.append(leaf(rng.choice(XML_TAGS)))
        if rng.random() < 0.06:
            parts.append("<?pi data?>")
        if rng.random() < 0.06:
            parts.append("<!-- comment -->")
        if rng.random() < 0.04:
            parts.append("<x:y xmlns:x='urn:x'/>")
        if rng.random() < 0.5:
            rng.shuffle(parts)
        tag = "section" if rng.random() < 0.95 else rng.choice(["Section", "SECTION", "sec"])
        return "<%s>%s</%s>" % (tag, "".join(parts), tag)
    parts = []
    for tag in rng.sample(["author", "date", "version", "repository", "id"], rng.randrange(0, 4)):
        parts.append(leaf(tag))
    for _ in range(rng.choice([0, 1, 2, 3])):
        parts.append(sec(0))
    if rng.random() < 0.1:
        parts.append(prop(0))
    if rng.random() < 0.08:
        parts.append("<?xml-stylesheet href='x'?>")
    if rng.random() < 0.1:
        parts.append(leaf(rng.choice(XML_TAGS)))
    rng.shuffle(parts)
    attrs = rng.choice([' version="1.1"'] * 8 + ['', ' version="1.0"', ' version="1.1" extra="x"', ' VERSION="1.1"',
                                                  " version='1.1'", ' version="1"', ' version=" 1.1"'])
    head = rng.choice(["", "", '<?xml version="1.0" encoding="UTF-8"?>\n', '<?xml version="1.0"?>\n<?xml-stylesheet type="text/xsl" href="odmlDocument.xsl"?>\n',
                       '<?xml version="1.0" encoding="ISO-8859-1"?>\n', "<!-- lead -->\n"])
    return "%s<odML%s>%s</odML>%s" % (head, attrs, "".join(parts), rng.choice(["", "", "\n", "<!-- tail -->"]))


def rand_dict_tree(rng):
    def odd_keys(d):
        # keys that are no text (YAML reads  on: / 1: / null:  that way), case variants and python-side aliases of keys
        if rng.random() < 0.12:
            d[rng.choice([True, False, 1, 0, None, 2.5, "Name", "NAME", "Sections", "Properties", "Dtype", "Values",
                          "Type", "oid", "values", "", " name"])] = rng.choice(["x", 1, None, [], [{"name": "k", "type": "t"}]])

    def scalar():
        r = rng.random()
        if r < 0.5:
            return rng.choice(SCALARS)
        return rng.choice([None, 0, 1, -1, 2.5, True, False, [], {}, [1, 2], ["a", None], {"a": 1}, 10 ** 20, [[1, 2]], [None, 3], (1, 2)])

    def prop():
        d = {}
        if rng.random() < 0.9:
            d["name"] = rng.choice(["p", "q", "p", scalar()])
        for k in rng.sample(["value", "type", "unit", "uncertainty", "id", "definition", "reference", "dependency",
                             "dependencyvalue", "value_origin", "val_cardinality", "dtype", "values", "oid", "foo"],
                            rng.randrange(0, 6)):
            d[k] = scalar()
        if rng.random() < 0.3:
            d["value"] = rng.choice([[1, 2], ["a"], "x", [1, "a"], 5, None, [[1]], "[1,2]", {"a": 1}])
        odd_keys(d)
        return d if rng.random() < 0.95 else rng.choice([None, 5, "x", []])

    def sec(depth):
        d = {}
        if rng.random() < 0.9:
            d["name"] = rng.choice(["a", "b", "a", scalar()])
        if rng.random() < 0.85:
            d["type"] = rng.choice(["t", scalar()])
        for k in rng.sample(["id", "definition", "reference", "repository", "link", "include", "sec_cardinality",
                             "prop_cardinality", "foo", "sections", "properties"], rng.randrange(0, 4)):
            d[k] = scalar()
        if rng.random() < 0.7:
            d["properties"] = [prop() for _ in range(rng.choice([0, 1, 2, 3]))]
        if depth < 3 and rng.random() < 0.6:
            d["sections"] = [sec(depth + 1) for _ in range(rng.choice([0, 1, 2]))]
        odd_keys(d)
        return d if rng.random() < 0.95 else rng.choice([None, 5, "x", []])
    doc = {}
    for k in rng.sample(["author", "date", "version", "repository", "id", "foo", "oid"], rng.randrange(0, 4)):
        doc[k] = scalar()
    odd_keys(doc)
    if rng.random() < 0.9:
        doc["sections"] = [sec(0) for _ in range(rng.choice([0, 1, 2, 3]))]
    root = {"Document": doc, "odml-version": rng.choice(["1.1"] * 8 + ["1.0", 1.1, None, "1"])}
    r = rng.random()
    if r < 0.04:
        del root["odml-version"]
    elif r < 0.08:
        root["Document"] = rng.choice([None, [], "x", 5, [doc]])
    elif r < 0.1:
        root = rng.choice([[root], None, "x", 5])
    return root


def shaped_like_odml(d):
    """mappings / lists nested as the 1.1 layout prescribes."""
    if not isinstance(d, dict) or d.get("odml-version") != "1.1" or not isinstance(d.get("Document"), dict):
        return False
    if not all(isinstance(k, str) for k in d):
        return False

    def sec_ok(s):
        if not isinstance(s, dict) or not all(isinstance(k, str) for k in s):
            return False
        props = s.get("properties", [])
        if not isinstance(props, list) or not all(isinstance(p, dict) and all(isinstance(k, str) for k in p) for p in props):
            return False
        secs = s.get("sections", [])
        return isinstance(secs, list) and all(sec_ok(c) for c in secs)
    doc = d["Document"]
    if not all(isinstance(k, str) for k in doc):
        return False
    secs = doc.get("sections", [])
    return isinstance(secs, list) and all(sec_ok(c) for c in secs)


def mutate_xml(rng, text):
    from lxml import etree
    try:
        root = etree.fromstring(text.encode("utf-8"))
    except Exception:
        return text
    els = [e for e in root.iter() if isinstance(e.tag, str)]
    for _ in range(rng.choice([1, 1, 2, 3])):
        e = rng.choice(els)
        op = rng.randrange(8)
        par = e.getparent()
        if op == 0 and par is not None:
            par.remove(e)
        elif op == 1 and par is not None:
            par.append(copy.deepcopy(e))
        elif op == 2 and par is not None and len(par) > 1:
            other = rng.choice(list(par))
            if other is not e:
                i, j = par.index(e), par.index(other)
                par[i], par[j] = copy.deepcopy(other), copy.deepcopy(e)
        elif op == 3:
            e.tag = rng.choice(XML_TAGS)
        elif op == 4:
            e.text = rng.choice(SCALARS)
        elif op == 5:
            e.set(rng.choice(["version", "x"]), rng.choice(["1.1", "1.0", "y"]))
        elif op == 6 and par is not None:
            tgt = rng.choice(els)
            if tgt is not e and e not in list(tgt.iterancestors()) and tgt is not root:
                try:
                    tgt.append(copy.deepcopy(e))
                except Exception:
                    pass
        elif op == 7:
            e.text = None
            for c in list(e):
                e.remove(c)
        els = [x for x in root.iter() if isinstance(x.tag, str)]
    return etree.tounicode(root)


def mutate_dict(rng, d):
    d = copy.deepcopy(d)
    nodes = []

    def walk(x, parent, key):
        nodes.append((x, parent, key))
        if isinstance(x, dict):
            for k in list(x):
                walk(x[k], x, k)
        elif isinstance(x, list):
            for i in range(len(x)):
                walk(x[i], x, i)
    walk(d, None, None)
    for _ in range(rng.choice([1, 1, 2, 3])):
        x, parent, key = rng.choice(nodes)
        if parent is None:
            continue
        op = rng.randrange(6)
        try:
            if op == 0:
                del parent[key]
            elif op == 1 and isinstance(parent, list):
                parent.append(copy.deepcopy(x))
            elif op == 2:
                parent[key] = rng.choice(SCALARS + [None, 5, [], {}, [1, "a"], {"name": "n"}])
            elif op == 3 and isinstance(parent, dict):
                parent[rng.choice(["foo", "name", "id", "sections", "properties", "value", "type", "odml-version"])] = parent.pop(key)
            elif op == 4 and isinstance(parent, list) and len(parent) > 1:
                rng.shuffle(parent)
            elif op == 5 and isinstance(x, dict):
                x[rng.choice(["name", "id", "oid", "dtype", "values", "foo"])] = rng.choice(SCALARS)
        except Exception:
            pass
        nodes = []
        walk(d, None, None)
    return d


# ---------------------------------------------------------------------------------------------
# oracle

def xml_facts(text):
    """Independent view: (wellformed, root_tag, version)."""
    from lxml import etree
    try:
        data = text.encode("utf-8") if isinstance(text, str) else text
        root = etree.fromstring(data, etree.XMLParser(remove_comments=True, resolve_entities=False))
    except Exception:
        return False, None, None
    return True, root.tag, root.attrib.get("version")


def judge(rec, reader, mode, outcome, exc, facts_, doc, case, calls, must_succeed=False, wrong_version=False,
          none_ok=False):
    """outcome in {'doc','none','raised','budget'}"""
    from odml.tools.parser_utils import ParserException, InvalidVersionException
    rec.monitor("totality")
    tag = "%s/%s" % (reader, mode)
    if outcome == "budget":
        rec.violation("%s/does-not-terminate" % tag, "more than %d calls" % BUDGET, case)
        return
    if outcome == "raised":
        name = type(exc).__name__
        rec.outcome("%s:%s" % (reader, name))
        if not isinstance(exc, ParserException):
            where = _where(exc)
            rec.violation("%s/leaks-%s@%s" % (tag, name, where), "%s: %r" % (tag, str(exc)[:200]), case)
            return
        if wrong_version and not isinstance(exc, InvalidVersionException):
            rec.violation("%s/other-version-not-InvalidVersionException" % tag, repr(exc)[:200], case)
        if must_succeed:
            rec.monitor("lenient-never-raises")
            rec.violation("%s/lenient-raised-on-wellformed-current-version:%s" % (tag, _msgclass(exc)),
                          "%s: %r" % (tag, str(exc)[:200]), case)
        return
    if must_succeed:
        rec.monitor("lenient-never-raises")
    if outcome == "none":
        rec.outcome("%s:None" % reader)
        if not none_ok:
            rec.violation("%s/returned-None" % tag, "", case)
        return
    rec.outcome("%s:Document" % reader)
    if kind(doc) != "doc":
        rec.violation("%s/returned-%s" % (tag, type(doc).__name__), "", case)
        return
    rec.monitor("returned-documents-wellformed")
    w = hist.World()
    w.objs.append(doc)
    fs = hist.facts(hist.universe(w))
    bad = sorted({f[0] for f in fs})
    if bad:
        rec.violation("%s/returned-document-violates:%s" % (tag, "+".join(bad)[:100]), "%r" % bad, case)


def _where(exc):
    tb = exc.__traceback__
    last = "?"
    while tb is not None:
        fn = tb.tb_frame.f_code.co_filename
        if "/odml/" in fn:
            last = "%s.%s" % (os.path.basename(fn)[:-3], tb.tb_frame.f_code.co_name)
        tb = tb.tb_next
    return last


def _msgclass(exc):
    m = str(exc)
    for key in ("same name", "Missing", "Invalid element", "not supported", "consistent type", "cardinal"):
        if key in m:
            return key.replace(" ", "-")
    return "other"


def call(fn):
    def wrapped():
        try:
            return ("ok", fn())
        except budget.BudgetExceeded:
            raise
        except Exception as exc:
            return ("raised", exc)
    ok, res, calls = budget.run(wrapped, BUDGET)
    if not ok:
        return "budget", None, None, calls
    if res[0] == "raised":
        return "raised", res[1], None, calls
    if res[1] is None:
        return "none", None, None, calls
    return "doc", None, res[1], calls


def run_xml(ctx, text, case, sdir):
    from odml.tools.xmlparser import XMLReader
    from odml.tools.odmlparser import ODMLReader
    import odml
    rec = ctx.rec
    wf, root, version = xml_facts(text)
    current = wf and root == "odML" and version == "1.1"
    wrong_version = wf and root == "odML" and version not in (None, "1.1")
    rec.case(core.h(["xml", text]), wf)
    rec.count("xml-input", "wellformed-current" if current else ("wellformed-other" if wf else "malformed"))
    path = os.path.join(sdir, "c16.xml")
    with io.open(path, "w", encoding="utf-8") as f:
        f.write(text)
    for mode in ("strict", "lenient"):
        lenient = mode == "lenient"
        rec.evaluation()
        o = call(lambda: XMLReader(ignore_errors=lenient, show_warnings=False).from_string(text))
        judge(rec, "xml.from_string", mode, o[0], o[1], None, o[2], case, o[3], must_succeed=lenient and current,
              wrong_version=wrong_version)
        o = call(lambda: XMLReader(ignore_errors=lenient, show_warnings=False).from_file(path))
        judge(rec, "xml.from_file", mode, o[0], o[1], None, o[2], case, o[3], must_succeed=lenient and current,
              wrong_version=wrong_version)
    o = call(lambda: ODMLReader("XML", show_warnings=False).from_string(text))
    judge(rec, "odmlreader-xml.from_string", "strict", o[0], o[1], None, o[2], case, o[3], wrong_version=wrong_version)
    o = call(lambda: ODMLReader("XML", show_warnings=False).from_file(path))
    judge(rec, "odmlreader-xml.from_file", "lenient", o[0], o[1], None, o[2], case, o[3], must_succeed=current,
          wrong_version=wrong_version)
    o = call(lambda: odml.load(path, show_warnings=False))
    judge(rec, "odml.load-xml", "lenient", o[0], o[1], None, o[2], case, o[3], must_succeed=current,
          wrong_version=wrong_version)
    # file like objects instead of a path: text and byte streams, streams whose name is no path
    import tempfile

    def tmpfile(mode):
        f = tempfile.TemporaryFile(mode) if "b" in mode else tempfile.TemporaryFile(mode, encoding="utf-8")
        f.write(text.encode("utf-8") if "b" in mode else text)
        f.seek(0)
        return f
    for label, mk in (("StringIO", lambda: io.StringIO(text)), ("BytesIO", lambda: io.BytesIO(text.encode("utf-8"))),
                      ("TemporaryFile-bytes", lambda: tmpfile("w+b")), ("TemporaryFile-text", lambda: tmpfile("w+")),
                      ("open-bytes", lambda: open(path, "rb"))):
        for mode in ("strict", "lenient"):
            try:
                stream = mk()
            except Exception:
                continue          # (text the platform cannot put into such a stream)
            o = call(lambda: XMLReader(ignore_errors=mode == "lenient", show_warnings=False).from_file(stream))
            # (a text stream that carries an encoding declaration cannot be parsed at all: plain ParserException)
            wv = wrong_version and not (label in ("StringIO", "TemporaryFile-text") and text.lstrip().startswith("<?xml"))
            judge(rec, "xml.from_file(%s)" % label, mode, o[0], o[1], None, o[2], case, o[3], wrong_version=wv)
    # the default: with the validation report after parsing
    o = call(lambda: ODMLReader("XML").from_string(text))
    judge(rec, "odmlreader-xml.from_string+report", "strict", o[0], o[1], None, o[2], case, o[3], wrong_version=wrong_version)
    o = call(lambda: odml.load(path))
    judge(rec, "odml.load-xml+report", "lenient", o[0], o[1], None, o[2], case, o[3], must_succeed=current,
          wrong_version=wrong_version)


def run_dict(ctx, d, case, sdir, as_text=None):
    from odml.tools.dict_parser import DictReader
    from odml.tools.odmlparser import ODMLReader
    import odml
    rec = ctx.rec
    shaped = shaped_like_odml(d)
    wrong_version = isinstance(d, dict) and isinstance(d.get("Document"), dict) and "odml-version" in d and d.get("odml-version") != "1.1"
    rec.case(core.h(["dict", enc(d)]), isinstance(d, dict))
    rec.count("dict-input", "shaped" if shaped else "not-shaped")
    for mode in ("strict", "lenient"):
        lenient = mode == "lenient"
        rec.evaluation()
        dd = copy.deepcopy(d)
        o = call(lambda: DictReader(show_warnings=False, ignore_errors=lenient).to_odml(dd))
        judge(rec, "dict.to_odml", mode, o[0], o[1], None, o[2], case, o[3], must_succeed=lenient and shaped,
              wrong_version=wrong_version)
    # through the text formats when the structure can be serialised by plain json / yaml
    for fmt in ("JSON", "YAML"):
        try:
            text = json.dumps(d) if fmt == "JSON" else yaml.safe_dump(d)
        except Exception:
            continue
        path = os.path.join(sdir, "c16." + fmt.lower())
        with io.open(path, "w") as f:
            f.write(text)
        o = call(lambda: ODMLReader(fmt, show_warnings=False).from_string(text))
        judge(rec, "odmlreader-%s.from_string" % fmt.lower(), "strict", o[0], o[1], None, o[2], case, o[3],
              wrong_version=wrong_version)
        o = call(lambda: ODMLReader(fmt, show_warnings=False).from_file(path))
        judge(rec, "odmlreader-%s.from_file" % fmt.lower(), "lenient" if fmt == "YAML" else "strict", o[0], o[1], None,
              o[2], case, o[3], must_succeed=(fmt == "YAML" and shaped), wrong_version=wrong_version)
        o = call(lambda: odml.load(path, fmt, show_warnings=False))
        judge(rec, "odml.load-%s" % fmt.lower(), "lenient" if fmt == "YAML" else "strict", o[0], o[1], None, o[2], case,
              o[3], must_succeed=(fmt == "YAML" and shaped), wrong_version=wrong_version)
        o = call(lambda: ODMLReader(fmt).from_string(text))
        judge(rec, "odmlreader-%s.from_string+report" % fmt.lower(), "strict", o[0], o[1], None, o[2], case, o[3],
              wrong_version=wrong_version)
        o = call(lambda: odml.load(path, fmt))
        judge(rec, "odml.load-%s+report" % fmt.lower(), "lenient" if fmt == "YAML" else "strict", o[0], o[1], None, o[2], case,
              o[3], must_succeed=(fmt == "YAML" and shaped), wrong_version=wrong_version)


def run_text(ctx, text, case, sdir):
    """Arbitrary text through the JSON / YAML readers."""
    from odml.tools.odmlparser import ODMLReader
    rec = ctx.rec
    for fmt in ("JSON", "YAML"):
        rec.evaluation()
        path = os.path.join(sdir, "c16t." + fmt.lower())
        try:
            with io.open(path, "w", encoding="utf-8") as f:
                f.write(text)
        except Exception:
            continue
        try:
            parsed = json.loads(text) if fmt == "JSON" else yaml.safe_load(text)
            parsable = True
        except Exception:
            parsed, parsable = None, False
        o = call(lambda: ODMLReader(fmt, show_warnings=False).from_string(text))
        judge(rec, "odmlreader-%s.from_string" % fmt.lower(), "text", o[0], o[1], None, o[2], case, o[3], none_ok=not parsable)
        o = call(lambda: ODMLReader(fmt, show_warnings=False).from_file(path))
        judge(rec, "odmlreader-%s.from_file" % fmt.lower(), "text", o[0], o[1], None, o[2], case, o[3], none_ok=not parsable)


def one_defect_spec(rng):
    """A valid document with several siblings at every level (so that something can follow a defect)."""
    spec = gen.gen_doc(rng, max_nodes=14, hostile=0.1, tuples=False, cards=True)
    # make sure the first top level Section has >= 3 Properties and >= 3 sub-Sections
    top = spec["sections"][0]
    while len(top["properties"]) < 3:
        top["properties"].append(gen.gen_prop(rng, "extra_p%d" % len(top["properties"]), 0.0, tuples=False, cards=True))
    while len(top["sections"]) < 3:
        top["sections"].append(gen.gen_sec(rng, "extra_s%d" % len(top["sections"]), 0, [2], 0.0, tuples=False, cards=True))
    for _, n in model.walk(spec):
        if n["k"] == "prop":
            n["dependency"] = n["dependency_value"] = None
    from checks.c01_xml import foreign_safe
    return foreign_safe(gen.normal_form(spec))


DEFECTS = ["duplicate-section", "duplicate-property", "unknown-element", "bad-value", "nameless-property",
           "attribute", "bad-cardinality", "bad-id", "odd-value-text", "dependency-on-typed", "misplaced-key",
           "cardinality-digits"]

TYPED_TARGETS = [("int", "[1,2]", "two"), ("float", "1.5", "x"), ("boolean", "true", "yes"), ("date", "2020-01-02", "tomorrow"),
                 ("time", "01:02:03", "noon"), ("datetime", "2020-01-02 03:04:05", "now"), ("2-tuple", "(1;2)", "1"), ("int", "[1,2]", "2")]

# value texts that are hard on the list syntax of <value>: bare carriage return, line breaks outside quotes, one very long
# entry, unbalanced quotes and brackets
ODD_VALUE_TEXTS = ["[a,\rb]", "[1,2,\n3,4]", "[" + "x" * 140000 + ",y]", "[\"unclosed,b]", "[a\"b,c]", "[[1,2],[3]]", "[,]", "[ ]",
                   "[a,b", "a,b]", "[\"a\nb\",c]", "\r", "[\r]", "[a,b]]", "[\x85,\u2028]",
                   # long runs of one character class followed by another: hard on regular expressions that look for number-like text
                   "1" * 40 + "x", "-" + "9" * 60 + "e", "[" + "7" * 45 + "_," + "0" * 45 + ".]", "2020-01-01" * 8 + "T", "t" * 50 + "1"]


def inject_xml_defect(rng, text, defect):
    from lxml import etree
    root = etree.fromstring(text.encode("utf-8"))
    top = root.find("section")
    if defect == "duplicate-section":
        subs = top.findall("section")
        k = rng.randrange(0, len(subs) - 1)          # never the last: something valid must follow
        dup = copy.deepcopy(subs[k])
        dup.find("id").text = "00000000-0000-4000-8000-%012d" % rng.randrange(10 ** 12)
        subs[k].addnext(dup)
    elif defect == "duplicate-property":
        props = top.findall("property")
        k = rng.randrange(0, len(props) - 1)
        dup = copy.deepcopy(props[k])
        dup.find("id").text = "00000000-0000-4000-8000-%012d" % rng.randrange(10 ** 12)
        props[k].addnext(dup)
    elif defect == "unknown-element":
        e = etree.Element("bogus")
        e.text = "x"
        top.insert(rng.randrange(len(top)), e)
    elif defect == "bad-value":
        e = etree.fromstring("<property><name>defective</name><value>not-a-number</value><type>int</type></property>")
        top.insert(rng.randrange(len(top)), e)
    elif defect == "nameless-property":
        e = etree.fromstring("<property><value>1</value><type>int</type></property>")
        top.insert(rng.randrange(len(top)), e)
    elif defect == "dependency-on-typed":
        # no defect at all: a Property depending on a typed sibling, with a dependency value that is no text form of that type
        dtype, val, depval = rng.choice(TYPED_TARGETS)
        a = etree.fromstring("<property><name>typed_target</name><value>%s</value><type>%s</type></property>" % (val, dtype))
        b = etree.fromstring("<property><name>dependent</name><value>1</value><type>int</type><dependency>typed_target</dependency>"
                             "<dependencyvalue>%s</dependencyvalue></property>" % depval)
        top.insert(rng.randrange(len(top)), a)
        top.insert(rng.randrange(len(top)), b)
    elif defect == "misplaced-key":
        # an element of another level of the format: <value> / <dtype> below a Section, <property> below the Document
        kind_ = rng.choice(["value-in-section", "type-list", "property-in-document", "author-in-section"])
        if kind_ == "value-in-section":
            e = etree.fromstring("<value>[1,2]</value>")
            top.insert(rng.randrange(len(top)), e)
        elif kind_ == "type-list":
            e = etree.fromstring("<dtype>int</dtype>")
            top.insert(rng.randrange(len(top)), e)
        elif kind_ == "author-in-section":
            e = etree.fromstring("<author>somebody</author>")
            top.insert(rng.randrange(len(top)), e)
        else:
            e = etree.fromstring("<property><name>stray</name><value>1</value><type>int</type></property>")
            root.insert(rng.randrange(len(root)), e)
    elif defect == "cardinality-digits":
        # bounds with different digit counts in the wrong order (text order and numeric order disagree)
        e = etree.Element(rng.choice(["prop_cardinality", "sec_cardinality"]))
        e.text = rng.choice(["(10, 2)", "(100, 11)", "(12, 9)", "(20, 3)"])
        top.insert(0, e)
    elif defect == "odd-value-text":
        e = etree.fromstring("<property><name>defective</name><value/><type>string</type></property>")
        e.find("value").text = rng.choice(ODD_VALUE_TEXTS)
        top.insert(rng.randrange(len(top)), e)
    elif defect == "attribute":
        top.findall("property")[0].set("foo", "bar")
    elif defect == "bad-cardinality":
        e = etree.Element("prop_cardinality")
        e.text = "(3,1)"
        top.insert(0, e)
    elif defect == "bad-id":
        top.findall("property")[1].find("id").text = "not-an-id"
    return etree.tounicode(root)


def check_keeps_valid_parts(ctx, spec, text, defect, case):
    """Lenient mode: every problem a warning and all valid parts are kept."""
    from odml.tools.xmlparser import XMLReader
    rec = ctx.rec
    rec.monitor("lenient-keeps-valid-parts")
    rd = XMLReader(ignore_errors=True, show_warnings=False)
    try:
        doc = rd.from_string(text)
    except Exception as exc:
        rec.violation("xml/lenient/one-defect:%s/raised-%s" % (defect, type(exc).__name__), str(exc)[:150], case)
        return
    from checks.c01_xml import strip_model
    got = strip_model(model.model_of(doc))
    exp = strip_model(spec)
    have = {p: n for p, n in model.walk(got)}
    for path, node in model.walk(exp):
        g = have.get(path)
        if g is None:
            rec.violation("xml/lenient/one-defect:%s/valid-%s-lost" % (defect, node["k"]),
                          "%s is missing after a lenient read (warnings: %d)" % (path, len(rd.warnings)), case)
            return
        d = [i for i in model.diff({k: v for k, v in node.items() if k not in ("sections", "properties")},
                                   {k: v for k, v in g.items() if k not in ("sections", "properties")})
             if not (defect == "bad-id" and i["field"] == "id") and not (defect == "bad-cardinality" and i["field"] == "prop_cardinality")
             and not (defect == "cardinality-digits" and i["field"].endswith("_cardinality"))]
        if d:
            rec.violation("xml/lenient/one-defect:%s/valid-%s-altered:%s" % (defect, node["k"], d[0]["field"]),
                          "%s: %r" % (path, d[:1]), case)
            return
    # (an odd value text may be legal text after all: whether it is taken as it is or reported is not prescribed)
    if defect not in ("bad-id", "odd-value-text", "dependency-on-typed") and not rd.warnings:
        rec.violation("xml/lenient/one-defect:%s/no-warning-recorded" % defect, "", case)


def inject_dict_defect(rng, d, defect):
    d = copy.deepcopy(d)
    top = d["Document"]["sections"][0]
    if defect == "duplicate-section":
        k = rng.randrange(0, len(top["sections"]) - 1)
        dup = copy.deepcopy(top["sections"][k])
        dup["id"] = "00000000-0000-4000-8000-%012d" % rng.randrange(10 ** 12)
        top["sections"].insert(k + 1, dup)
    elif defect == "duplicate-property":
        k = rng.randrange(0, len(top["properties"]) - 1)
        dup = copy.deepcopy(top["properties"][k])
        dup["id"] = "00000000-0000-4000-8000-%012d" % rng.randrange(10 ** 12)
        top["properties"].insert(k + 1, dup)
    elif defect == "unknown-element":
        top["bogus"] = "x"
    elif defect == "bad-value":
        top["properties"].insert(rng.randrange(len(top["properties"])), {"name": "defective", "value": ["not-a-number"], "type": "int"})
    elif defect == "nameless-property":
        top["properties"].insert(rng.randrange(len(top["properties"])), {"value": [1], "type": "int"})
    elif defect == "dependency-on-typed":
        dtype, val, depval = rng.choice([t for t in TYPED_TARGETS if t[0] in ("int", "float", "boolean")])
        pv = {"int": [1, 2], "float": [1.5], "boolean": [True]}[dtype]
        top["properties"].insert(rng.randrange(len(top["properties"])), {"name": "typed_target", "type": dtype, "value": pv})
        top["properties"].insert(rng.randrange(len(top["properties"])),
                                 {"name": "dependent", "type": "int", "value": [1], "dependency": "typed_target",
                                  "dependency_value": depval})
    elif defect == "misplaced-key":
        # a key of another level of the format, in the python-side or the file-side spelling
        where = rng.choice(["document", "section", "property"])
        if where == "document":
            d["Document"][rng.choice(["properties", "dtype", "values", "value", "type", "name", "definition"])] = rng.choice([[], "x", 1])
        elif where == "section":
            top[rng.choice(["dtype", "values", "value", "unit", "val_cardinality", "author", "version"])] = rng.choice([[1], "x", "int"])
        else:
            top["properties"][0][rng.choice(["sections", "properties", "sec_cardinality", "author", "include", "link"])] = \
                rng.choice([[], "x", None])
    elif defect == "cardinality-digits":
        top[rng.choice(["prop_cardinality", "sec_cardinality"])] = rng.choice([[10, 2], [100, 11], [12, 9]])
    elif defect == "odd-value-text":
        top["properties"].insert(rng.randrange(len(top["properties"])),
                                 {"name": "defective", "type": "int", "value": rng.choice([[[1, [2]]], {"a": 1}, [None], "[1,", [1, "x"]])})
    elif defect == "attribute":
        top["properties"][0]["foo"] = "bar"
    elif defect == "bad-cardinality":
        top["prop_cardinality"] = [3, 1]
    elif defect == "bad-id":
        top["properties"][1]["id"] = "not-an-id"
    return d


def check_dict_keeps_valid_parts(ctx, spec, d, defect, case):
    from odml.tools.dict_parser import DictReader
    rec = ctx.rec
    rec.monitor("lenient-keeps-valid-parts")
    rd = DictReader(show_warnings=False, ignore_errors=True)
    try:
        doc = rd.to_odml(copy.deepcopy(d))
    except Exception as exc:
        rec.violation("dict/lenient/one-defect:%s/raised-%s" % (defect, type(exc).__name__), str(exc)[:150], case)
        return
    got = model.model_of(doc)
    have = {p: n for p, n in model.walk(got)}
    for path, node in model.walk(spec):
        g = have.get(path)
        if g is None:
            rec.violation("dict/lenient/one-defect:%s/valid-%s-lost" % (defect, node["k"]),
                          "%s is missing after a lenient read (warnings: %d)" % (path, len(rd.warnings)), case)
            return
        dd = [i for i in model.diff({k: v for k, v in node.items() if k not in ("sections", "properties")},
                                    {k: v for k, v in g.items() if k not in ("sections", "properties")})
              if not (defect == "bad-id" and i["field"] == "id") and not (defect == "bad-cardinality" and i["field"] == "prop_cardinality")
              and not (defect == "cardinality-digits" and i["field"].endswith("_cardinality"))]
        if dd:
            rec.violation("dict/lenient/one-defect:%s/valid-%s-altered:%s" % (defect, node["k"], dd[0]["field"]),
                          "%s: %r" % (path, dd[:1]), case)
            return


def _signature(o):
    from checks.c01_xml import no_ids
    kind_, exc, doc, calls = o
    if kind_ == "raised":
        return "raised:" + type(exc).__name__
    if kind_ == "doc":
        try:
            m = model.model_of(doc)
            for _, n in model.walk(m):
                if n.get("name") is not None and n.get("name") == n.get("id"):
                    n["name"] = "<its id>"      # a replaced / generated id is random; so is a name defaulting to it
            return "doc:" + core.h(enc(no_ids(m)))
        except Exception as e:
            return "doc:unmodelled:" + type(e).__name__
    return kind_


def run_reader_reuse(ctx, case, sdir):
    """One ODMLReader instance reads a sequence of good and defective inputs through both entry points: what it returns
    (or raises) for an input must not depend on what it read before, i.e. equal the outcome of a fresh reader."""
    from odml.tools.odmlparser import ODMLReader
    rec = ctx.rec
    spec = dec(case["spec"])
    rng = random.Random("reuse|%s" % case.get("i"))
    texts = {}
    if case["family"] == "xml-one-defect":
        texts["XML"] = (emit.xml_from_model(spec).split("?>", 1)[1], case["text"])
    else:
        good, bad = emit.dict_from_model(spec), dec(case["dict"])
        try:
            texts["JSON"] = (json.dumps(good), json.dumps(bad))
            texts["YAML"] = (yaml.safe_dump(good), yaml.safe_dump(bad))
        except Exception:
            pass
    for fmt, (good, bad) in texts.items():
        paths = {}
        for which, text in (("good", good), ("bad", bad)):
            paths[which] = os.path.join(sdir, "c16reuse_%s.%s" % (which, fmt.lower()))
            with io.open(paths[which], "w", encoding="utf-8") as f:
                f.write(text)
        steps = [("from_string", "good"), ("from_file", "bad"), ("from_string", "bad"), ("from_file", "good")]
        rng.shuffle(steps)
        steps = steps + [steps[0]]

        def do(reader, entry, which):
            if entry == "from_string":
                return call(lambda: reader.from_string(good if which == "good" else bad))
            return call(lambda: reader.from_file(paths[which]))
        reader = ODMLReader(fmt, show_warnings=False)
        hist = []
        for entry, which in steps:
            rec.monitor("reader-instance-reuse")
            rec.evaluation()
            got = _signature(do(reader, entry, which))
            fresh = _signature(do(ODMLReader(fmt, show_warnings=False), entry, which))
            if got != fresh:
                rec.violation("odmlreader-%s.%s/instance-reuse/outcome-depends-on-earlier-calls:%s-instead-of-%s" % (
                    fmt.lower(), entry, got.split(":")[0] + (":" + got.split(":")[1] if got.startswith("raised") else ""),
                    fresh.split(":")[0] + (":" + fresh.split(":")[1] if fresh.startswith("raised") else "")),
                    "%s input via %s after %r: %s, a fresh reader: %s" % (which, entry, hist, got, fresh),
                    dict(case, reuse=True))
                break
            hist.append("%s(%s)" % (entry, which))
        rec.count("reader-reuse", fmt)


def valid_files(rng):
    spec = gen.gen_doc(rng, max_nodes=8, hostile=0.3, tuples=False)
    m = spec
    return emit.xml_from_model(m, rng), emit.dict_from_model(m, rng)


def run_case(case, ctx, sdir):
    with warnings.catch_warnings():
        warnings.simplefilter("ignore")
        fam = case["family"]
        if fam == "deep-nesting":
            n = case["depth"]
            if case["what"] == "xml":
                text = '<odML version="1.1">' + "<section><name>s</name><type>t</type>" * n + "</section>" * n + "</odML>"
                run_xml(ctx, text, dict(case, text="(%d nested sections)" % n), sdir)
            else:
                d = {"name": "s", "type": "t"}
                for _ in range(n):
                    d = {"name": "s", "type": "t", "sections": [d]}
                run_dict(ctx, {"Document": {"sections": [d]}, "odml-version": "1.1"}, case, sdir)
        elif fam == "text":
            run_xml(ctx, case["text"], case, sdir)
            run_text(ctx, case["text"], case, sdir)
        elif fam == "xml-one-defect":
            run_xml(ctx, case["text"], case, sdir)
            check_keeps_valid_parts(ctx, dec(case["spec"]), case["text"], case["defect"], case)
            run_reader_reuse(ctx, case, sdir)
        elif fam == "dict-one-defect":
            run_dict(ctx, dec(case["dict"]), case, sdir)
            check_dict_keeps_valid_parts(ctx, dec(case["spec"]), dec(case["dict"]), case["defect"], case)
            run_reader_reuse(ctx, case, sdir)
        elif fam in ("xml-grammar", "xml-mutation", "xml-own-file"):
            run_xml(ctx, case["text"], case, sdir)
        else:
            run_dict(ctx, dec(case["dict"]), case, sdir)


def run(ctx):
    from vlib import env
    sdir = env.scratch()
    rec = ctx.rec
    n = ctx.pick(6000, 400000)
    for i in range(n):
        if not ctx.mine(i):
            continue
        rng = random.Random("C16|%s|%d" % (ctx.seed, i))
        fam = ["text", "xml-grammar", "xml-grammar", "xml-mutation", "dict-grammar", "dict-grammar", "dict-mutation",
               "xml-own-file", "xml-one-defect", "dict-one-defect"][i % 10]
        if i % 250 == 7:
            fam = "deep-nesting"
        if fam == "deep-nesting":
            # nesting beyond what parsers and recursive readers take for granted
            what = rng.choice(["xml", "xml", "dict"])
            depth = rng.choice([120, 200, 257, 300, 400, 700, 1200, 3000]) if what == "xml" else rng.choice([40, 80, 120])
            case = {"family": fam, "depth": depth, "what": what}
        elif fam == "text":
            case = {"family": fam, "text": rand_text(rng)}
        elif fam == "xml-grammar":
            case = {"family": fam, "text": rand_xml_tree(rng)}
        elif fam == "xml-one-defect":
            spec = one_defect_spec(rng)
            defect = DEFECTS[(i // 10) % len(DEFECTS)]
            try:
                text = inject_xml_defect(rng, emit.xml_from_model(spec).split("?>", 1)[1], defect)
            except Exception:
                continue
            case = {"family": fam, "text": text, "spec": enc(spec), "defect": defect}
        elif fam == "dict-one-defect":
            spec = one_defect_spec(rng)
            defect = DEFECTS[(i // 10) % len(DEFECTS)]
            try:
                d = inject_dict_defect(rng, emit.dict_from_model(spec), defect)
            except Exception:
                continue
            case = {"family": fam, "dict": enc(d), "spec": enc(spec), "defect": defect}
        elif fam == "xml-mutation":
            x, _ = valid_files(rng)
            case = {"family": fam, "text": mutate_xml(rng, x.split("?>", 1)[1])}
        elif fam == "xml-own-file":
            # the text of a file the library wrote itself (with XML declaration / stylesheet header)
            import odml
            with warnings.catch_warnings():
                warnings.simplefilter("ignore")
                spec = gen.gen_doc(rng, max_nodes=6, hostile=0.2, tuples=False)
                try:
                    doc = gen.build_doc(spec)
                    p = os.path.join(sdir, "own.xml")
                    odml.save(doc, p, **rng.choice([{}, {"local_style": True}]))
                    with io.open(p, encoding="utf-8") as f:
                        case = {"family": fam, "text": f.read()}
                except Exception:
                    continue
        elif fam == "dict-grammar":
            case = {"family": fam, "dict": enc(rand_dict_tree(rng))}
        else:
            _, d = valid_files(rng)
            case = {"family": fam, "dict": enc(mutate_dict(rng, d))}
        case["i"] = i
        rec.count("family", fam)
        run_case(case, ctx, sdir)
        if i < 8:
            rec.sample({"family": fam, "input": (case.get("text") or json.dumps(case.get("dict"), default=repr))[:300]})
        if ctx.time_left() < 0:
            rec.extra["stopped_early_at"] = i
            break


def replay(case, ctx):
    from vlib import env
    run_case(case, ctx, env.scratch())
