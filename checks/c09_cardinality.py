"""C09 -- cardinalities: normal form, exact violation reports, never enforced, persisted.

Exhaustive grid (both tiers).  Monitors:
  setter      accept/reject/stored value of every setting x kind x setter form x previous setting against
              models/cardinality.py; rejected => ValueError and previous setting kept
  contract    post-condition on odml.util.format_cardinality (icontract when available): every value it ever
              returns during the whole workload is in normal form
  report      validation issue 500/501/502 (rank warning) for the object iff count outside [min, max], for
              every normal-form cardinality x child count 0..5, re-evaluated along add/remove histories
  unenforced  the same add/remove history on a twin without cardinality has the same outcome step by step
  persist     every normal-form cardinality of every kind survives save/load in XML, JSON and YAML; parser
              functions satisfy parse(text(c)) == c
"""
import os
import warnings

from vlib import core
from vlib.model import enc
from models import cardinality as cm

PROPERTY = "C09"
LEVEL = "exploration"
SHARDS = {"quick": 4, "thorough": 8}
EXHAUSTIVE = {"quick": True, "thorough": True}
RULE = ("exhaustive grid: settings {None, ints -1..4, (a,b) with a,b in {None,-1..4}, 2-lists, strings, floats, "
        "1-/3-tuples, dict} x 3 kinds x 3 setter forms (attribute, set_*_cardinality, constructor keyword) "
        "x 2 previous settings; every normal-form cardinality x child counts 0..5 x stand-alone/in-document "
        "validation; add/remove histories (thorough: longer and more) with a twin without cardinality; every "
        "normal-form cardinality x 3 kinds x {XML, JSON, YAML}; populations of 2-6 objects with one cardinality in one document "
        "(content-equal twins included) validated in one run; non-trivial = case whose setting is not None; "
        "distinct = hash of (kind, form, previous, setting) / (kind, cardinality, count) / (kind, cardinality, "
        "format)")
ASSUMPTIONS = ["falsy scalars ('' , 0, 0.0, [], {}) count as 'unset' (don't-care zone: may be accepted as unset or "
               "refused)", "(0, 0), (0, None), (None, 0) are 'both empty' and may be stored as unset",
               "issue ids 500/501/502 identify the three cardinality rules"]
REQUIRED_MONITORS = ["setter", "contract", "report", "unenforced", "persist"]

KINDS = {
    "val": ("val_cardinality", "set_values_cardinality", 502),
    "prop": ("prop_cardinality", "set_properties_cardinality", 500),
    "sec": ("sec_cardinality", "set_sections_cardinality", 501),
}


def settings():
    vals = [None, -1, 0, 1, 2, 3, 4]
    out = [None, -1, 0, 1, 2, 3, 4]
    for a in vals:
        for b in vals:
            out.append((a, b))
    for a, b in ((1, 2), (None, 3), (2, None), (3, 1), (0, 0), (-1, 2)):
        out.append([a, b])
    out += ["", "3", "(1, 2)", "bad", 1.5, 0.0, 2.0, (1,), (1, 2, 3), (), [], [1], {}, {"min": 1}, ("1", 2),
            (1.0, 2), (1, "2"), ((1, 2),), b"1", ("", 3), (2, "")]
    return out


def make(kind, card=None, via="ctor"):
    import odml
    name, meth, _ = KINDS[kind]
    if kind == "val":
        o = odml.Property(u"p \u00fc\u65e5", dtype="int", **({name: card} if via == "ctor" else {}))
    else:
        o = odml.Section(u"s \u00e4\u672c", "t", **({name: card} if via == "ctor" else {}))
    return o


def apply_setting(o, kind, form, inp):
    name, meth, _ = KINDS[kind]
    if form == "attr":
        setattr(o, name, inp)
    elif form == "method":
        if isinstance(inp, (tuple, list)) and len(inp) == 2:
            getattr(o, meth)(inp[0], inp[1])
        else:
            return False
    return True


def set_count(o, kind, n):
    import odml
    if kind == "val":
        o.values = list(range(n)) if n else None
    elif kind == "prop":
        for p in list(o.properties):
            o.remove(p)
        for i in range(n):
            odml.Property("p%d" % i, parent=o)
    else:
        for s in list(o.sections):
            o.remove(s)
        for i in range(n):
            odml.Section("s%d" % i, "t", parent=o)


def count_of(o, kind):
    return {"val": lambda: len(o.values), "prop": lambda: len(o.properties),
            "sec": lambda: len(o.sections)}[kind]()


def card_issues(root, obj, issue_no):
    from odml.validation import Validation
    v = Validation(root)
    return [e for e in v.errors if e.obj is obj and getattr(e.validation_id, "value", None) == issue_no]


def install_contract(rec):
    """Post-condition on format_cardinality wherever the library has bound it."""
    import odml.util
    import odml.section
    import odml.property
    orig = odml.util.format_cardinality
    if getattr(orig, "_verif_wrapped", False):
        return

    def result_in_normal_form(result):
        rec.monitor("contract")
        ok = cm.normal_form(result)
        if not ok:
            rec.violation("contract/format_cardinality-returned-non-normal-form", "returned %r" % (result,),
                          {"result": enc(result)})
        return True   # record, do not abort the observed call
    try:
        import icontract
        wrapped = icontract.ensure(result_in_normal_form)(orig)
        rec.extra["contract_engine"] = "icontract"
    except Exception:
        def wrapped(in_val):
            r = orig(in_val)
            result_in_normal_form(r)
            return r
        rec.extra["contract_engine"] = "plain-wrapper"
    wrapped._verif_wrapped = True
    for mod in (odml.util, odml.section, odml.property):
        if getattr(mod, "format_cardinality", None) is orig:
            setattr(mod, "format_cardinality", wrapped)


def check_setter(ctx, kind, form, prev, inp, idx):
    rec = ctx.rec
    name = KINDS[kind][0]
    case = {"part": "setter", "kind": kind, "form": form, "prev": enc(prev), "input": enc(inp)}
    rec.evaluation()
    rec.case(core.h(case), inp is not None)
    zone, acc = cm.expected(inp)
    raised = None
    try:
        if form == "ctor":
            if prev is not None:
                return
            o = make(kind, inp, "ctor")
        else:
            o = make(kind, prev, "ctor")
            if not apply_setting(o, kind, form, inp):
                return
    except Exception as exc:
        raised = exc
    rec.monitor("setter")
    rec.count("setter", "%s/%s/%s" % (kind, form, zone))
    if raised is not None:
        rec.outcome("setter-raised:" + type(raised).__name__)
        if zone == cm.ACCEPT:
            rec.violation("setter/%s/valid-setting-refused" % _shape(inp), "%s %s: %r raised %r" % (kind, form, inp, raised), case)
        elif not isinstance(raised, ValueError):
            rec.violation("setter/refused-with-%s" % type(raised).__name__, "%s %s: %r raised %r" % (kind, form, inp, raised), case)
        elif form != "ctor":
            if getattr(o, name) != prev:
                rec.violation("setter/refused-but-changed", "%s %s: %r raised but setting went %r -> %r" % (
                    kind, form, inp, prev, getattr(o, name)), case)
        return
    stored = getattr(o, name)
    rec.outcome("setter-accepted")
    if not cm.normal_form(stored):
        rec.violation("setter/stored-not-normal-form:%s" % _shape(inp), "%s %s: %r stored as %r" % (kind, form, inp, stored), case)
    elif zone == cm.REJECT:
        rec.violation("setter/%s/invalid-setting-accepted" % _shape(inp), "%s %s: %r accepted and stored as %r" % (kind, form, inp, stored), case)
    elif stored not in acc:
        rec.violation("setter/%s/stored-differs" % _shape(inp), "%s %s: %r stored as %r, expected one of %r" % (
            kind, form, inp, stored, sorted(map(repr, acc))), case)


def _shape(inp):
    if isinstance(inp, (tuple, list)) and len(inp) == 2:
        a, b = inp

        def z(x):
            if x is None:
                return "None"
            if isinstance(x, bool):
                return "bool"
            if isinstance(x, int):
                return "neg" if x < 0 else ("0" if x == 0 else "n")
            return type(x).__name__
        rel = ""
        if cm.is_count(a) and cm.is_count(b):
            rel = ":min>max" if a > b else (":min==max" if a == b else ":min<max")
        return "%s(%s,%s)%s" % (type(inp).__name__, z(a), z(b), rel)
    if isinstance(inp, bool):
        return "bool"
    if isinstance(inp, int):
        return "int:" + ("neg" if inp < 0 else ("0" if inp == 0 else "n"))
    return type(inp).__name__ + (":empty" if not inp else "")


def check_report(ctx, kind, card, n, in_doc):
    import odml
    rec = ctx.rec
    name, _, issue_no = KINDS[kind]
    case = {"part": "report", "kind": kind, "card": enc(card), "count": n, "in_doc": in_doc}
    rec.evaluation()
    rec.case(core.h(case), True)
    o = make(kind, card)
    if getattr(o, name) != card:
        return  # setter deviation is reported by check_setter
    root = o
    if in_doc:
        root = odml.Document()
        if kind == "val":
            sec = odml.Section("holder", "t", parent=root)
            o.parent = sec
        else:
            o.parent = root
    set_count(o, kind, n)
    issues = card_issues(root, o, issue_no)
    rec.monitor("report")
    exp = cm.violated(card, n)
    rec.count("report", "%s/%s" % (kind, "violated" if exp else "met"))
    if exp and not issues:
        rec.violation("report/missing:%s" % ("below-min" if card[0] is not None and n < card[0] else "above-max"),
                      "%s card %r count %d: no issue %d" % (kind, card, n, issue_no), case)
    if not exp and issues:
        rec.violation("report/spurious", "%s card %r count %d: %r" % (kind, card, n, issues[0].msg), case)
    if len(issues) > 1:
        rec.violation("report/duplicated", "%s card %r count %d: %d issues" % (kind, card, n, len(issues)), case)
    for e in issues:
        if e.rank != "warning" or e.is_error:
            rec.violation("report/rank-not-warning", "rank %r" % e.rank, case)


def _no_issue_rule(obj):
    return
    yield


def check_population(ctx, kind, card, counts):
    """Several objects with the same cardinality in one document (content-equal twins below different parents
    included), one validation run: each object gets its own warning exactly when its own count is out of range."""
    import odml
    from odml.validation import Validation
    rec = ctx.rec
    name, _, issue_no = KINDS[kind]
    case = {"part": "population", "kind": kind, "card": enc(card), "counts": list(counts)}
    rec.evaluation()
    rec.case(core.h(case), True)
    doc = odml.Document()
    objs = []
    for i, n in enumerate(counts):
        holder = odml.Section("holder%d" % i, "h", parent=doc)
        o = make(kind, card)
        if getattr(o, name) != card:
            return
        o.parent = holder
        set_count(o, kind, n)
        objs.append(o)
    runs = [("default", Validation(doc).errors)]
    try:
        runs.append(("document.validate", list(doc.validate().errors)))      # the Document's own entry point: issues of its objects
    except Exception as exc:
        rec.violation("report/document.validate-raised-%s" % type(exc).__name__, repr(exc), case)
    # the same through a validation that also carries a rule of the user (registered on a plain, non-reset instance)
    v = Validation(doc, validate=False)
    try:
        for klass in ("odML", "section", "property"):
            v.register_custom_handler(klass, _no_issue_rule)
        v.run_validation()
        runs.append(("with-user-rule", list(v.errors)))
    except Exception as exc:
        rec.violation("report/validation-with-user-rule-raised-%s" % type(exc).__name__, repr(exc), case)
    finally:
        for klass in ("odML", "section", "property"):     # the library keeps such a rule in the shared registry: take it out again
            Validation._handlers.get(klass, set()).discard(_no_issue_rule)
    rec.monitor("report")
    for how, errors in runs:
        for o, n in zip(objs, counts):
            issues = [e for e in errors if e.obj is o and getattr(e.validation_id, "value", None) == issue_no]
            if how == "document.validate":
                if cm.violated(card, n) != bool(issues):
                    rec.violation("report/%s:document.validate" % ("missing" if not issues else "spurious"),
                                  "%s card %r count %d: Document.validate() %s issue %d for this object" % (
                                      kind, card, n, "reports no" if not issues else "reports", issue_no), case)
                continue
            if how != "default":
                if cm.violated(card, n) and not issues:
                    rec.violation("report/missing:validation-with-user-rule", "%s card %r count %d: no issue %d once a user rule is registered" % (
                        kind, card, n, issue_no), case)
                continue
            exp = cm.violated(card, n)
            twin = "twin" if list(counts).count(n) > 1 else "single"
            rec.count("report", "population:%s/%s/%s" % (kind, twin, "violated" if exp else "met"))
            if exp and not issues:
                rec.violation("report/missing:population-%s" % twin, "%s card %r counts %r: object %d (count %d) has no issue %d" % (
                    kind, card, counts, objs.index(o), n, issue_no), case)
            if not exp and issues:
                rec.violation("report/spurious:population-%s" % twin, "%s card %r counts %r: %r" % (kind, card, counts, issues[0].msg), case)
            if len(issues) > 1:
                rec.violation("report/duplicated:population-%s" % twin, "%d issues on one object" % len(issues), case)


def check_history(ctx, kind, card, steps, rng, hid):
    """Add/remove children after the cardinality was set: report exact after every step, never enforced."""
    import odml
    rec = ctx.rec
    name, _, issue_no = KINDS[kind]
    case = {"part": "history", "kind": kind, "card": enc(card), "steps": steps}
    rec.evaluation()
    rec.case(core.h(case), True)
    o, twin = make(kind, card), make(kind, None)
    if getattr(o, name) != card:
        return  # 'both empty' pairs are stored as unset; the setter monitor judges that
    for si, (act, arg) in enumerate(steps):
        outcomes = []
        for obj in (o, twin):
            try:
                if kind == "val":
                    if act == "add":
                        obj.append(arg) if len(obj.values) else setattr(obj, "values", [arg])
                    elif act == "extend":
                        obj.extend([arg, arg + 1])
                    elif act == "remove":
                        if obj.values:
                            obj.remove(obj.values[-1])
                    elif act == "clear":
                        obj.values = None
                elif kind == "prop":
                    if act in ("add", "extend"):
                        odml.Property("p%d_%d" % (si, arg), parent=obj)
                        if act == "extend":
                            obj.append(odml.Property("q%d_%d" % (si, arg)))
                    elif act == "remove":
                        if len(obj.properties):
                            obj.remove(obj.properties[-1])
                    elif act == "clear":
                        for p in list(obj.properties):
                            p.parent = None
                else:
                    if act in ("add", "extend"):
                        odml.Section("s%d_%d" % (si, arg), "t", parent=obj)
                        if act == "extend":
                            obj.insert(0, odml.Section("r%d_%d" % (si, arg), "t"))
                    elif act == "remove":
                        if len(obj.sections):
                            obj.remove(obj.sections[-1])
                    elif act == "clear":
                        for s in list(obj.sections):
                            s.parent = None
                outcomes.append("returned")
            except Exception as exc:
                outcomes.append("raised:" + type(exc).__name__)
        rec.monitor("unenforced")
        if outcomes[0] != outcomes[1] or count_of(o, kind) != count_of(twin, kind):
            rec.violation("unenforced/%s-differs-from-twin" % act,
                          "%s card %r step %d %s: %s (count %d) vs twin %s (count %d)" % (
                              kind, card, si, act, outcomes[0], count_of(o, kind), outcomes[1], count_of(twin, kind)),
                          dict(case, upto=si))
            return
        if getattr(o, name) != card:
            rec.violation("history/cardinality-changed-by-%s" % act, "%r -> %r" % (card, getattr(o, name)), case)
            return
        n = count_of(o, kind)
        issues = card_issues(o, o, issue_no)
        rec.monitor("report")
        if cm.violated(card, n) != bool(issues):
            rec.violation("report/stale-after-%s:%s" % (act, "missing" if not issues else "spurious"),
                          "%s card %r count %d after step %d: issues=%d" % (kind, card, n, si, len(issues)),
                          dict(case, upto=si))
            return


def check_persist(ctx, kind, card, fmt, sdir):
    import odml
    rec = ctx.rec
    name = KINDS[kind][0]
    case = {"part": "persist", "kind": kind, "card": enc(card), "fmt": fmt}
    rec.evaluation()
    rec.case(core.h(case), True)
    doc = odml.Document()
    sec = odml.Section("s", "t", parent=doc)
    if kind == "val":
        o = odml.Property("p", values=[1, 2], dtype="int", parent=sec, val_cardinality=card)
    else:
        o = odml.Section("inner", "t", parent=sec, **{name: card})
    if getattr(o, name) != card:
        return
    path = os.path.join(sdir, "c09.%s" % fmt.lower())
    if os.path.exists(path):
        os.remove(path)
    rec.monitor("persist")
    try:
        odml.save(doc, path, fmt)
        back = odml.load(path, fmt, show_warnings=False)
        o2 = back.sections[0].properties[0] if kind == "val" else back.sections[0].sections[0]
        got = getattr(o2, name)
    except Exception as exc:
        rec.violation("persist/%s/raised-%s" % (_cshape(card), type(exc).__name__), "%s %r %s: %r" % (kind, card, fmt, exc), case)
        return
    if got != card:
        rec.violation("persist/%s/%s" % (_cshape(card), "dropped" if got is None else "altered"),
                      "%s %s: %r came back as %r" % (kind, fmt, card, got), case)
        return
    # one writer object used for a whole session: the cardinality is written, changed, written again by the same
    # writer (to text and to a file); what is loaded is the cardinality at the time of the respective save
    from odml.tools.odmlparser import ODMLWriter, ODMLReader
    rec.monitor("persist-writer-reuse")
    try:
        w = ODMLWriter(fmt)
        w.to_string(doc) if fmt != "XML" else None
        w.write_file(doc, path)
        second = {(1, 2): (2, 5), (2, 5): (1, 2)}.get(card, (1, 2))
        setattr(o, name, second)
        if getattr(o, name) != second:
            return
        w.write_file(doc, path)
        back = ODMLReader(fmt, show_warnings=False).from_file(path)
        o2 = back.sections[0].properties[0] if kind == "val" else back.sections[0].sections[0]
        got2 = getattr(o2, name)
        text = w.to_string(doc)
        back3 = ODMLReader(fmt, show_warnings=False).from_string(text)
        o3 = back3.sections[0].properties[0] if kind == "val" else back3.sections[0].sections[0]
        got3 = getattr(o3, name)
    except Exception as exc:
        rec.violation("persist/writer-reuse/raised-%s" % type(exc).__name__, "%s %r %s: %r" % (kind, card, fmt, exc), case)
        return
    if got2 != second or got3 != second:
        rec.violation("persist/writer-reuse/stale", "%s %s: changed %r -> %r, the reused writer wrote %r (file) / %r (text)" % (
            kind, fmt, card, second, got2, got3), case)


def check_persist_population(ctx, cards, fmt, sdir):
    """Sibling Sections and sibling Properties with different / without cardinalities in one file: each object gets
    back its own setting (none leaks to a neighbour)."""
    import odml
    rec = ctx.rec
    case = {"part": "persist-population", "cards": enc(list(cards)), "fmt": fmt}
    rec.evaluation()
    rec.case(core.h(case), True)
    doc = odml.Document()
    host = odml.Section("host", "t", parent=doc)
    exp = []
    for i, c in enumerate(cards):
        s = odml.Section("s%d" % i, "t", parent=host, sec_cardinality=c, prop_cardinality=cards[(i + 1) % len(cards)])
        p = odml.Property("p%d" % i, values=[1, 2], dtype="int", parent=host, val_cardinality=c)
        top = odml.Section("top%d" % i, "t", parent=doc, sec_cardinality=cards[(i + 2) % len(cards)])
        exp.append((s.sec_cardinality, s.prop_cardinality, p.val_cardinality, top.sec_cardinality))
    # a chain of Sections without own Properties whose LAST sub-Section alone carries cardinalities
    nest = odml.Section("nest", "t", parent=doc)
    mid = odml.Section("mid", "t", parent=nest)
    odml.Section("first", "t", parent=mid)
    last = odml.Section("last", "t", parent=mid, sec_cardinality=cards[0], prop_cardinality=cards[-1])
    exp_nest = (nest.sec_cardinality, nest.prop_cardinality, mid.sec_cardinality, mid.prop_cardinality,
                last.sec_cardinality, last.prop_cardinality)
    path = os.path.join(sdir, "c09pop.%s" % fmt.lower())
    if os.path.exists(path):
        os.remove(path)
    rec.monitor("persist")
    try:
        odml.save(doc, path, fmt)
        back = odml.load(path, fmt, show_warnings=False)
        got = []
        for i in range(len(cards)):
            h = back.sections["host"]
            got.append((h.sections["s%d" % i].sec_cardinality, h.sections["s%d" % i].prop_cardinality,
                        h.properties["p%d" % i].val_cardinality, back.sections["top%d" % i].sec_cardinality))
        n2 = back.sections["nest"]
        m2 = n2.sections["mid"]
        l2 = m2.sections["last"]
        got_nest = (n2.sec_cardinality, n2.prop_cardinality, m2.sec_cardinality, m2.prop_cardinality,
                    l2.sec_cardinality, l2.prop_cardinality)
        for what, ev, gv in zip(("nest.sections", "nest.properties", "mid.sections", "mid.properties", "last.sections",
                                 "last.properties"), exp_nest, got_nest):
            if ev != gv:
                rec.violation("persist/population/%s" % ("leaked-from-a-child" if ev is None else ("dropped" if gv is None else "altered")),
                              "%s %s: %r came back as %r" % (fmt, what, ev, gv), case)
    except Exception as exc:
        rec.violation("persist/population/raised-%s" % type(exc).__name__, "%s: %r" % (fmt, exc), case)
        return
    for i, (e, g) in enumerate(zip(exp, got)):
        for what, ev, gv in zip(("sec.sections", "sec.properties", "prop.values", "top.sections"), e, g):
            if ev != gv:
                rec.violation("persist/population/%s" % ("leaked-from-a-sibling" if ev is None else ("dropped" if gv is None else "altered")),
                              "%s position %d %s: %r came back as %r" % (fmt, i, what, ev, gv), case)


def _cshape(c):
    if c is None:
        return "unset"
    a, b = c
    if a is not None and b is not None:
        return "min==max" if a == b else "min<max"
    return "max-only" if a is None else "min-only"


def check_parsers(ctx):
    from odml.tools import xmlparser, dict_parser
    rec = ctx.rec
    for c in cm.valid_pairs(0, 12) + [(2, 100), (9, 10), (10, 100), (99, 1000), (None, 100), (100, None)]:
        rec.monitor("persist")
        rec.evaluation()
        x = xmlparser.parse_cardinality(str(c))
        d = dict_parser.parse_cardinality(list(c))
        exp = c
        acc = {c}
        if c[0] == 0:
            acc.add((None, c[1]))  # 0 read as "no limit"
        if not c[0] and not c[1]:
            acc.add(None)
        if x not in acc:
            rec.violation("persist/parser-xml/%s" % _cshape(c), "parse_cardinality(%r) -> %r" % (str(c), x),
                          {"part": "parser", "card": enc(c)})
        if d not in acc:
            rec.violation("persist/parser-dict/%s" % _cshape(c), "parse_cardinality(%r) -> %r" % (list(c), d),
                          {"part": "parser", "card": enc(c)})
    for bad in ("(2,1)", "(a,b)", "(1)", "1,2", "(1,2,3)", "(-1,2)", "()", "(,)", "None", "(None,None)"):
        rec.evaluation()
        x = xmlparser.parse_cardinality(bad)
        if x is not None and not cm.normal_form(x):
            rec.violation("persist/parser-xml/accepts-malformed", "parse_cardinality(%r) -> %r" % (bad, x),
                          {"part": "parser", "text": bad})
        if bad == "(2,1)" and x is not None:
            rec.violation("persist/parser-xml/accepts-min>max", "parse_cardinality(%r) -> %r" % (bad, x),
                          {"part": "parser", "text": bad})


def run(ctx):
    from vlib import env
    rec = ctx.rec
    sdir = env.scratch()
    install_contract(rec)
    with warnings.catch_warnings():
        warnings.simplefilter("ignore")
        i = 0
        sets = settings()
        for kind in KINDS:
            for form in ("attr", "method", "ctor"):
                for prev in (None, (1, 2)):
                    for inp in sets:
                        i += 1
                        if ctx.mine(i):
                            check_setter(ctx, kind, form, prev, inp, i)
        # beyond the statement's grid: multi-digit bounds (cheap, and text/number confusions live there)
        wide = [c for c in [(a, b) for a in (None, 2, 9, 10, 11, 100) for b in (None, 2, 9, 10, 11, 100, 1000)]
                if cm.normal_form(c)]
        for kind in KINDS:
            for card in wide:
                for fmt in ("XML", "JSON", "YAML"):
                    i += 1
                    if ctx.mine(i):
                        check_persist(ctx, kind, card, fmt, sdir)
                for n in (0, 9, 10, 11, 12):
                    i += 1
                    if ctx.mine(i) and kind == "val":
                        check_report(ctx, kind, card, n, False)
        pairs = cm.valid_pairs(0, 4) + [None]
        for kind in KINDS:
            for card in pairs:
                for n in range(6):
                    for in_doc in (False, True):
                        i += 1
                        if ctx.mine(i):
                            check_report(ctx, kind, card, n, in_doc)
                for fmt in ("XML", "JSON", "YAML"):
                    i += 1
                    if ctx.mine(i):
                        check_persist(ctx, kind, card, fmt, sdir)
                if card is not None:
                    for counts in [(n, n) for n in range(6)] + [(0, 5, 0), (1, 2, 3), (5, 5, 5, 0), (0, 1, 2, 3, 4, 5)]:
                        i += 1
                        if ctx.mine(i):
                            check_population(ctx, kind, card, counts)
        for cards in ([(1, 2), None, (None, 3), None], [None, (0, 1), None], [(2, None), (2, None), None, (0, 4)],
                      [None, None, (1, 1)], [(0, 2), (None, 2), (2, 2)]):
            for fmt in ("XML", "JSON", "YAML"):
                i += 1
                if ctx.mine(i):
                    check_persist_population(ctx, cards, fmt, sdir)
        if ctx.shard == 0:
            check_parsers(ctx)
        nh = ctx.pick(1500, 300000)
        for j in range(nh):
            if not ctx.mine(j):
                continue
            rng = ctx.rng("hist", j)
            rng.seed("C09|%s|%d" % (ctx.seed, j))
            kind = rng.choice(list(KINDS))
            card = rng.choice(pairs[:-1])
            steps = [(rng.choice(["add", "add", "add", "extend", "remove", "remove", "clear"]), rng.randrange(1000))
                     for _ in range(rng.randrange(3, ctx.pick(10, 25)))]
            check_history(ctx, kind, card, steps, rng, j)
            if j < 3:
                rec.sample({"history": {"kind": kind, "card": enc(card), "steps": steps[:6]}})
        rec.sample({"setter": {"kind": "sec", "form": "attr", "prev": None, "input": enc((2, 2))}})
        rec.sample({"report": {"kind": "val", "card": enc((1, 3)), "count": 4, "in_doc": True}})


def replay(case, ctx):
    from vlib import env
    from vlib.model import dec
    install_contract(ctx.rec)
    part = case.get("part")
    with warnings.catch_warnings():
        warnings.simplefilter("ignore")
        if part == "setter":
            check_setter(ctx, case["kind"], case["form"], dec(case["prev"]), dec(case["input"]), 0)
        elif part == "report":
            check_report(ctx, case["kind"], dec(case["card"]), case["count"], case["in_doc"])
        elif part == "persist-population":
            check_persist_population(ctx, dec(case["cards"]), case["fmt"], env.scratch())
        elif part == "population":
            check_population(ctx, case["kind"], dec(case["card"]), case["counts"])
        elif part == "history":
            check_history(ctx, case["kind"], dec(case["card"]), [tuple(s) for s in case["steps"]], None, 0)
        elif part == "persist":
            check_persist(ctx, case["kind"], dec(case["card"]), case["fmt"], env.scratch())
        else:
            check_parsers(ctx)
