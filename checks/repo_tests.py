"""The repository's own test-suite as an extra workload for the universe invariants of C03 / C04 / C05
(vlib/pytest_plugin.py).  Called by the shard-0 worker of those checks; one pytest child process, private TMPDIR,
no byte code written, nothing of the repository edited."""
import json
import os
import subprocess
import sys

from vlib import env

FAMILY_PREFIX = {"C03": "T:", "C04": "N:", "C05": "V:"}


def run(ctx, prop):
    rec = ctx.rec
    repo = os.environ.get("VERIF_REPO", "/repo")
    sdir = env.scratch()
    out = os.path.join(sdir, "repo_tests_%s.json" % prop)
    tmpd = os.path.join(sdir, "repo_tests_tmp_%s" % prop)
    os.makedirs(tmpd, exist_ok=True)
    here = os.path.dirname(os.path.dirname(os.path.abspath(__file__)))
    e = dict(os.environ, PYTHONPATH=here + os.pathsep + repo, VERIF_PLUGIN_OUT=out, TMPDIR=tmpd, PYTHONDONTWRITEBYTECODE="1")
    cmd = [sys.executable, "-m", "pytest", "-q", "-p", "no:cacheprovider", "-p", "vlib.pytest_plugin", "--timeout=900", "test"]
    try:
        p = subprocess.run(cmd, cwd=repo, env=e, capture_output=True, text=True, timeout=1500)
    except subprocess.TimeoutExpired:
        rec.count("repo-tests-workload", "timed-out (not judged)")
        return
    if not os.path.exists(out):
        rec.count("repo-tests-workload", "no-result-file (not judged): %s" % (p.stdout + p.stderr)[-200:])
        return
    with open(out) as f:
        res = json.load(f)
    rec.monitor("repo-tests-workload", res.get("fact_evaluations", 0))
    rec.count("repo-tests-workload", "tests", res.get("tests", 0))
    rec.count("repo-tests-workload", "objects-walked", res.get("objects", 0))
    for err in res.get("monitor_errors", [])[:5]:
        rec.count("repo-tests-workload", "monitor-error: " + err[:120])
    pre = FAMILY_PREFIX[prop]
    for item in res.get("failing", []):
        if item.get("exempt"):
            continue
        for fact in item["facts"]:
            if fact.startswith(pre):
                rec.violation("repo-tests/%s" % fact[2:], "after the repository's test %s" % item["test"],
                              {"repo_test": item["test"], "fact": fact})
