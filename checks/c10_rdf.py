"""C10 -- RDF export is a faithful, well-formed graph that imports back unchanged.

Monitors:
  shape      independent walk of the rdflib.Graph returned by convert_to_rdf: exactly one Hub linking exactly the
             exported Documents; one node per Document/Section/Property named by its id and typed as its odML
             class (or declared Section sub-class with its rdfs triples); per attribute of the RDF model exactly
             one literal (value and Python type) when set and no triple when unset; hasSection / hasProperty
             edges = the tree; each non-empty value list one rdf:Seq with rdf:_1.._n = the values in order; no
             other odml-namespace triples on these nodes
  roundtrip  for serialisation x sub-classing x entry point: one Document back per exported Document (matched by
             id) with equal ids, names, types, definitions, references, units, uncertainties, value origins,
             dtypes, values in order; siblings compared as name-keyed maps
"""
import os
import warnings

from vlib import core, gen, model, classify
from vlib.model import enc, dec
from checks.c01_xml import no_ids

PROPERTY = "C10"
LEVEL = "exploration"
SHARDS = {"quick": 8, "thorough": 16}
RULE = ("seeded lists of 1-3 documents (every dtype, floats needing 17 digits, ints > 2**64, text with quotes / "
        "newlines / non-ASCII, repeated values, falsy attributes) x serialisations {xml, nt, json-ld, turtle, n3} x "
        "sub-classing {on, off, custom map} x entry points {get_rdf_str->from_string, write_file->from_file, "
        "odml.save->ODMLReader('RDF').from_file / odml.load}; one RDFWriter / ODMLWriter instance used for two serialisations and again after an edit with a "
        "removal; PYTHONHASHSEED differs per worker; non-trivial = "
        "document set with at least one Property holding values; distinct = hash of the specs without ids")
ASSUMPTIONS = ["the uncertainty and the document version are free text in the RDF form and compared by their text",
               "sibling order is not compared (name-keyed maps)",
               "rdflib is trusted to parse what it serialised (it is part of the observed system, not of the oracle)",
               "documents carry no links/includes (convert_to_rdf finalizes the exported documents)"]
REQUIRED_MONITORS = ["shape", "roundtrip"]

NS = "https://g-node.org/odml-rdf#"
FORMATS = ["xml", "nt", "json-ld", "turtle", "n3"]
EXT = {"xml": ".rdf", "nt": ".nt", "json-ld": ".jsonld", "turtle": ".ttl", "n3": ".n3"}
DOC_PRED = {"author": "hasAuthor", "date": "hasDate", "version": "hasDocVersion"}
SEC_PRED = {"name": "hasName", "type": "hasType", "definition": "hasDefinition", "reference": "hasReference"}
PROP_PRED = {"name": "hasName", "definition": "hasDefinition", "dtype": "hasDtype", "unit": "hasUnit",
             "uncertainty": "hasUncertainty", "reference": "hasReference", "value_origin": "hasValueOrigin"}
CUSTOM = {"recording": "MyRecording", "cell": "Cell", "customtype": "Custom"}


def default_subclasses():
    """The declared sub-classes of Section: the published table (Section type -> class name of the odML RDF vocabulary,
    as in odml-ontology.ttl), kept as a copy under models/ so that the oracle does not read what the exporter reads
    (a class name changed in the shipped table changes what consumers of the vocabulary find)."""
    import json
    with open(os.path.join(os.path.dirname(os.path.dirname(os.path.abspath(__file__))), "models",
                           "section_subclasses_pinned.json")) as f:
        return json.load(f)


def shape_problems(graph, docs, subclassing, sub_map):
    """docs: list of models.  Returns list of (key, detail)."""
    from rdflib import URIRef, Literal
    from rdflib.namespace import RDF, RDFS
    probs = []
    ns = lambda x: URIRef(NS + x)
    hub = ns("Hub")
    hubs = set(s for s, p, o in graph if str(p) == NS + "hasDocument")
    if hubs != {hub}:
        probs.append(("hub/not-exactly-one", "subjects of hasDocument: %r" % sorted(map(str, hubs))))
    linked = set(graph.objects(hub, ns("hasDocument")))
    if linked != {ns(d["id"]) for d in docs}:
        probs.append(("hub/documents-linked-differ", "%d linked, %d exported" % (len(linked), len(docs))))
    judged_nodes = {}

    def lits(node, pred):
        return list(graph.objects(node, ns(pred)))

    def check_attr(node, kind_, field, pred, val):
        objs = lits(node, pred)
        if val is None:
            if objs:
                probs.append(("attr/%s.%s/triple-for-unset-attribute" % (kind_, field), "%r" % objs[:1]))
            return
        if len(objs) != 1:
            probs.append(("attr/%s.%s:%s/%s" % (kind_, field, classify.attr_shape(val),
                                                 "missing" if not objs else "repeated"), "%d triples for %r" % (len(objs), val)))
            return
        o = objs[0]
        if not isinstance(o, Literal):
            probs.append(("attr/%s.%s/not-a-literal" % (kind_, field), repr(o)))
            return
        py = o.toPython()
        if not model.same(py, val):
            if str(py) == str(val) and field in ("uncertainty", "version"):
                return
            probs.append(("attr/%s.%s:%s/literal-differs" % (kind_, field, classify.attr_shape(val)), "%r vs %r" % (py, val)))

    def types_of(node):
        return set(graph.objects(node, RDF.type))

    def allowed_preds(node, allowed, where):
        for p in set(graph.predicates(node, None)):
            if str(p).startswith(NS) and str(p)[len(NS):] not in allowed:
                probs.append(("extra-triple/%s:%s" % (where, str(p)[len(NS):]), "%r" % list(graph.objects(node, p))[:1]))

    def prop(p, parent_node):
        node = ns(p["id"])
        judged_nodes[node] = "prop"
        if types_of(node) != {ns("Property")}:
            probs.append(("type/property", "%r" % sorted(map(str, types_of(node)))))
        for f, pred in PROP_PRED.items():
            check_attr(node, "prop", f, pred, p[f])
        seqs = lits(node, "hasValue")
        vals = p["values"]
        if not vals:
            if seqs:
                probs.append(("values/seq-for-empty-values", ""))
        elif len(seqs) != 1:
            probs.append(("values/%s" % ("no-seq" if not seqs else "several-seqs"), "%d hasValue triples" % len(seqs)))
        else:
            seq = seqs[0]
            if RDF.Seq not in types_of(seq):
                probs.append(("values/not-an-rdf-Seq", "%r" % sorted(map(str, types_of(seq)))))
            members = {}
            for pr, o in graph.predicate_objects(seq):
                s_ = str(pr)
                if s_.startswith(str(RDF) + "_"):
                    members.setdefault(int(s_[len(str(RDF)) + 1:]), []).append(o)
                elif pr != RDF.type:
                    probs.append(("values/unexpected-predicate-on-seq", s_))
            if sorted(members) != list(range(1, len(vals) + 1)) or any(len(v) != 1 for v in members.values()):
                probs.append(("values/member-indices:%s" % classify.values_shape(vals, p["dtype"]),
                              "indices %r for %d values" % (sorted(members), len(vals))))
            else:
                got = [members[i][0].toPython() for i in range(1, len(vals) + 1)]
                if not model.same(got, vals):
                    probs.append(("values/literals-differ:%s" % classify.values_shape(vals, p["dtype"]),
                                  "%r vs %r" % (got[:3], vals[:3])))
        allowed_preds(node, set(PROP_PRED.values()) | {"hasValue", "hasId"}, "property")

    def sec(s, parent_node, parent_pred):
        node = ns(s["id"])
        judged_nodes[node] = "sec"
        exp_type = ns("Section")
        if subclassing and s["type"] in sub_map:
            exp_type = ns(sub_map[s["type"]])
            for t in ((ns("Section"), RDF.type, RDFS.Class), (exp_type, RDF.type, RDFS.Class),
                      (exp_type, RDFS.subClassOf, ns("Section"))):
                if t not in graph:
                    probs.append(("subclass/declaration-triple-missing", "%s %s %s" % t))
        if types_of(node) != {exp_type}:
            probs.append(("type/section", "%r, expected %s" % (sorted(map(str, types_of(node))), exp_type)))
        for f, pred in SEC_PRED.items():
            check_attr(node, "sec", f, pred, s[f])
        terms = lits(node, "hasTerminology")
        if bool(terms) != bool(s["repository"]):
            probs.append(("attr/sec.repository/%s" % ("missing" if s["repository"] else "spurious"), ""))
        kids_s = set(lits(node, "hasSection"))
        if kids_s != {ns(c["id"]) for c in s["sections"]}:
            probs.append(("edges/hasSection-differ", "%s" % s["name"]))
        kids_p = set(lits(node, "hasProperty"))
        if kids_p != {ns(c["id"]) for c in s["properties"]}:
            probs.append(("edges/hasProperty-differ", "%s" % s["name"]))
        allowed_preds(node, set(SEC_PRED.values()) | {"hasSection", "hasProperty", "hasTerminology", "hasId"}, "section")
        for c in s["sections"]:
            sec(c, node, "hasSection")
        for p in s["properties"]:
            prop(p, node)

    for d in docs:
        node = ns(d["id"])
        judged_nodes[node] = "doc"
        if types_of(node) != {ns("Document")}:
            probs.append(("type/document", "%r" % sorted(map(str, types_of(node)))))
        for f, pred in DOC_PRED.items():
            check_attr(node, "doc", f, pred, d[f])
        terms = lits(node, "hasTerminology")
        if bool(terms) != bool(d["repository"]):
            probs.append(("attr/doc.repository/%s" % ("missing" if d["repository"] else "spurious"), ""))
        fn = lits(node, "hasFileName")
        if fn:
            probs.append(("attr/doc.hasFileName/spurious-for-in-memory-document", "%r" % fn[:1]))
        kids = set(lits(node, "hasSection"))
        if kids != {ns(c["id"]) for c in d["sections"]}:
            probs.append(("edges/hasSection-differ", "document"))
        allowed_preds(node, set(DOC_PRED.values()) | {"hasSection", "hasTerminology", "hasFileName", "hasId"}, "document")
        for c in d["sections"]:
            sec(c, node, "hasSection")
    # no other typed odml objects in the graph
    for s_, o in graph.subject_objects(RDF.type):
        if str(o) in (NS + "Document", NS + "Section", NS + "Property") and s_ not in judged_nodes:
            probs.append(("extra-node", "%s typed %s" % (s_, o)))
    return probs


def normalise(m):
    """Model as the RDF form can carry it: uncertainty / version by text, sibling order irrelevant."""
    import copy
    m = copy.deepcopy(m)
    if m.get("version") is not None:
        m["version"] = str(m["version"])
    for _, n in model.walk(m):
        if n["k"] == "prop" and n.get("uncertainty") is not None:
            n["uncertainty"] = str(n["uncertainty"])
    return m


IGNORE = ("link", "include", "sec_cardinality", "prop_cardinality", "val_cardinality", "dependency",
          "dependency_value")


def run_case(case, ctx, sdir):
    import odml
    from odml.tools.rdf_converter import RDFWriter, RDFReader
    from odml.tools.odmlparser import ODMLReader
    rec = ctx.rec
    specs = [dec(s) for s in case["specs"]]
    rec.evaluation()
    with warnings.catch_warnings():
        warnings.simplefilter("ignore")
        try:
            docs = [gen.build_doc(s) for s in specs]
        except Exception as exc:
            rec.outcome("build-refused:" + type(exc).__name__)
            return
        models = [model.model_of(d) for d in docs]
        has_vals = any(n["k"] == "prop" and n["values"] for m in models for _, n in model.walk(m))
        rec.case(core.h([enc(no_ids(s)) for s in specs]), has_vals)
        defaults = default_subclasses()
        for subc in case.get("subclassing") or ["on", "off", "custom"]:
            kw = {"on": {}, "off": {"rdf_subclassing": False}, "custom": {"custom_subclasses": dict(CUSTOM)}}[subc]
            sub_map = {} if subc == "off" else dict(defaults, **(CUSTOM if subc == "custom" else {}))
            # ---- shape of the graph (one call on a fresh writer)
            was_ = os.getcwd()
            try:
                if case.get("i", 0) % 3 == 2:
                    # the export runs from another current directory than the one the library was imported in
                    os.chdir(sdir)
                    rec.count("config", "export-from-another-current-directory")
                g = RDFWriter(list(docs), **kw).convert_to_rdf()
            except Exception as exc:
                rec.violation("export/raised-%s" % type(exc).__name__, repr(exc), dict(case, subclassing=[subc]))
                continue
            finally:
                os.chdir(was_)
            rec.monitor("shape")
            rec.count("config", "shape|" + subc)
            for key, detail in shape_problems(g, models, subc != "off", sub_map):
                rec.violation("shape/" + key, "%s (sub-classing %s)" % (detail, subc), dict(case, subclassing=[subc]))
            after = [model.model_of(d) for d in docs]
            for a, b in zip(models, after):
                if model.diff(a, b):
                    rec.violation("export/mutates-documents", repr(model.diff(a, b)[:1]), case)
            # ---- round trips
            for fmt in case.get("formats") or FORMATS:
                for entry in case.get("entries") or ["string", "file", "save-load"]:
                    cfg = "%s|%s|%s" % (fmt, subc, entry)
                    rec.count("config", cfg)
                    rec.evaluation()
                    witness = dict(case, subclassing=[subc], formats=[fmt], entries=[entry])
                    path = os.path.join(sdir, "c10" + EXT[fmt])
                    # (the file of an earlier case - longer or shorter - stays in place: exports overwrite)
                    try:
                        if entry == "string":
                            text = RDFWriter(list(docs), **kw).get_rdf_str(fmt)
                            back = RDFReader().from_string(text, fmt)
                        elif entry == "file":
                            if case.get("i", 0) % 2:
                                # a name with dots and without the format's extension: the writer appends it
                                stem = os.path.join(sdir, "c10.2021-03-0%d" % (case.get("i", 0) % 7))
                                RDFWriter(list(docs), **kw).write_file(stem, fmt)
                                if not os.path.exists(stem + EXT[fmt]):
                                    rec.violation("rdf/write_file/expected-file-missing", "%s: %s%s not written (directory: %r)" % (
                                        cfg, os.path.basename(stem), EXT[fmt], sorted(os.listdir(sdir))[:6]), witness)
                                    continue
                                back = RDFReader().from_file(stem + EXT[fmt], fmt)
                            else:
                                RDFWriter(list(docs), **kw).write_file(path, fmt)
                                back = RDFReader().from_file(path, fmt)
                        else:
                            if len(docs) > 1 or subc != "on":
                                continue
                            odml.save(docs[0], path, "RDF", rdf_format=fmt)
                            back = ODMLReader("RDF", show_warnings=False).from_file(path, fmt)
                            try:
                                b2 = odml.load(path, "RDF", show_warnings=False)
                                if not isinstance(b2, list) or len(b2) != 1:
                                    rec.violation("roundtrip/odml.load-RDF/unexpected-result", repr(b2)[:100], witness)
                            except Exception as exc:
                                rec.violation("roundtrip/odml.load-RDF/raised-%s" % type(exc).__name__, repr(exc), witness)
                    except Exception as exc:
                        rec.outcome("roundtrip-raised:" + type(exc).__name__)
                        key = "rdf/roundtrip-raised:%s" % type(exc).__name__
                        if _has_tuple(models):
                            key = "rdf/tuple-values-exported-as-str(list)"
                        rec.violation(key, "%s: %r" % (cfg, str(exc)[:200]), witness)
                        continue
                    rec.monitor("roundtrip")
                    rec.outcome("roundtrip-ok")
                    by_id = {}
                    for b in back:
                        by_id.setdefault(b.id, []).append(b)
                    if sorted(by_id) != sorted(m["id"] for m in models) or any(len(v) != 1 for v in by_id.values()):
                        rec.violation("rdf/documents-returned-differ", "%s: %d back for %d exported" % (cfg, len(back), len(docs)), witness)
                        continue
                    for m in models:
                        obs = normalise(model.model_of(by_id[m["id"]][0]))
                        for item in model.diff(normalise(m), obs, ignore=IGNORE, unordered=True):
                            if item["field"] == "repository":
                                continue   # terminologies are nodes, not judged by the statement's list
                            key = classify.classify_item(item, "rdf")
                            if item["field"] == "values" and item.get("ctx", {}).get("dtype", "") and \
                                    str(item["ctx"]["dtype"]).endswith("-tuple"):
                                key = "rdf/tuple-values-exported-as-str(list)"
                            if item["field"] == "values" and fmt in ("turtle", "n3") and \
                                    classify.dtype_class(item.get("ctx", {}).get("dtype")) == "float" and \
                                    isinstance(item["obs"], list) and len(item["obs"]) == len(item["exp"]):
                                key = "rdf/%s:double-shortened" % "turtle|n3"
                            if item["field"] == "uncertainty" and fmt in ("turtle", "n3") and item["obs"] is not None:
                                try:
                                    if abs(float(item["obs"]) - float(item["exp"])) < 1e-6 * max(1.0, abs(float(item["exp"]))):
                                        key = "rdf/turtle|n3:double-shortened"
                                except ValueError:
                                    pass
                            rec.violation(key, "%s: %s.%s expected %r got %r" % (cfg, item["path"], item["field"],
                                                                               item["exp"], item["obs"]), witness)


def run_reuse(case, ctx):
    """One writer instance used more than once (two serialisations of one document, or a second export after
    the document was edited): every export must describe the document as it is at that moment."""
    import random
    from odml.tools.rdf_converter import RDFWriter, RDFReader
    from odml.tools.odmlparser import ODMLWriter
    from checks.c02_dict import edit_doc
    rec = ctx.rec
    spec = dec(case["specs"][0])
    with warnings.catch_warnings():
        warnings.simplefilter("ignore")
        try:
            doc = gen.build_doc(spec)
        except Exception:
            return
        if _has_tuple([model.model_of(doc)]) or not list(doc.itersections()):
            return
        defaults = default_subclasses()
        rng = random.Random("C10reuse|%s" % case.get("i"))
        fmt1, fmt2 = rng.choice(FORMATS), rng.choice(FORMATS)
        for who in ("RDFWriter", "ODMLWriter"):
            rec.monitor("instance-reuse")
            rec.evaluation()
            witness = dict(case, reuse=who)
            try:
                if who == "RDFWriter":
                    w = RDFWriter(doc)
                    export = lambda f: w.get_rdf_str(f)
                else:
                    ow = ODMLWriter("RDF")
                    export = lambda f: ow.to_string(doc, rdf_format=f)
                export(fmt1)
                second = export(fmt2)                 # same document, second serialisation
                if who == "RDFWriter":
                    for key, detail in shape_problems(w.graph, [model.model_of(doc)], True, defaults):
                        rec.violation("reuse:%s/second-export/shape/%s" % (who, key), detail, witness)
                edit_doc(doc, rng)
                removed = None
                secs = list(doc.itersections())
                victims = [p for x in secs for p in x.properties]
                if victims and rng.random() < 0.6:
                    removed = rng.choice(victims)
                    removed.parent.remove(removed)
                third = export(fmt2)                  # after the edit
                if who == "RDFWriter":
                    for key, detail in shape_problems(w.graph, [model.model_of(doc)], True, defaults):
                        rec.violation("reuse:%s/export-after-edit/shape/%s" % (who, key), detail, witness)
                backs = [RDFReader().from_string(second, fmt2), RDFReader().from_string(third, fmt2)]
            except Exception as exc:
                rec.count("reuse-skipped", "%s:%s" % (who, type(exc).__name__))
                continue
            rec.count("reuse", "%s|%s->%s|%s" % (who, fmt1, fmt2, "removal" if removed is not None else "edit-only"))
            exp = normalise(model.model_of(doc))
            if len(backs[1]) != 1:
                rec.violation("reuse:%s/export-after-edit/documents-returned-differ" % who, str(len(backs[1])), witness)
                continue
            for item in model.diff(exp, normalise(model.model_of(backs[1][0])), ignore=IGNORE, unordered=True):
                if item["field"] == "repository":
                    continue
                if item["field"] in ("values", "uncertainty") and fmt2 in ("turtle", "n3"):
                    continue      # double shortening is judged (as a known finding) by the round-trip monitor
                rec.violation("reuse:%s/export-after-edit/%s" % (who, item.get("kind") or item["field"]),
                              "%s.%s expected %r got %r" % (item["path"], item["field"], item["exp"], item["obs"]), witness)


def _has_tuple(models):
    return any(n["k"] == "prop" and (n["dtype"] or "").endswith("-tuple") and n["values"]
               for m in models for _, n in model.walk(m))


def run(ctx):
    from vlib import env
    sdir = env.scratch()
    rec = ctx.rec
    for i in range(ctx.pick(240, 10000)):
        if not ctx.mine(i):
            continue
        rng = ctx.rng("set", i)
        rng.seed("C10|%s|%d" % (ctx.seed, i))
        specs = []
        for _ in range(rng.choice([1, 1, 2, 3])):
            s = gen.gen_doc(rng, max_nodes=rng.choice([3, 6, 12]), hostile=rng.choice([0.1, 0.5]))
            for _, n in model.walk(s):
                if n["k"] == "sec":
                    # any type of the shipped sub-class table (fetched independently of the library), the custom one, or free text
                    n["type"] = rng.choice([n["type"], "recording", "customtype", rng.choice(sorted(default_subclasses())),
                                            rng.choice(sorted(default_subclasses())).upper()])
                elif n["k"] == "prop" and n["dtype"] in ("string", "text") and n["values"] and rng.random() < 0.15:
                    n["values"].insert(rng.randrange(len(n["values"]) + 1), "")     # the empty text is a value like any other
            if rng.random() < 0.08:
                s["sections"] = []          # a Document that only has attributes is a document like any other
            specs.append(s)
        case = {"specs": [enc(s) for s in specs], "i": i}
        if not ctx.quick() or i % 3 == 0:
            pass
        else:
            case["formats"] = [FORMATS[i % len(FORMATS)], "turtle"]
        run_case(case, ctx, sdir)
        run_reuse(case, ctx)
        if i < 2:
            rec.sample({"documents": len(specs), "nodes": [gen.count_nodes(s) for s in specs]})
        if ctx.time_left() < 0:
            break


def replay(case, ctx):
    from vlib import env
    if case.get("reuse"):
        return run_reuse(case, ctx)
    run_case(case, ctx, env.scratch())
