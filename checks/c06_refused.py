"""C06 -- a refused operation changes nothing.
Snapshot-before / compare-after monitor on every driver-issued public call that exits by exception:
the identity-based snapshot covers every object of the universe (child lists, parent, name, id, all
attributes, dtype, values, cardinalities, link/include, merge partner)."""
from checks import struct_common

PROPERTY = "C06"
LEVEL = "fault_enumeration"
SHARDS = {"quick": 8, "thorough": 16}
RULE = ("fault enumeration over (operation x failure cause): the directed decks invoke every editing operation, "
        "constructor and value operation in each pre-state that makes it fail (name clash, wrong type, invalid "
        "cardinality, unconvertible value, duplicate inside an extend argument, unresolvable link, malformed "
        "id, invalid date, cycle), then random histories with a raised share of failing calls; every call that "
        "raises is compared against the snapshot taken at its entry; non-trivial = history with more than 2 "
        "operations; distinct = hash of the op list")
ASSUMPTIONS = ["the snapshot reads private fields of every object reachable from the pool (children, parents, "
               "merge partners); objects not reachable from any of them are outside the observation",
               "histories are abandoned at the first violation of C03-C06"]
REQUIRED_MONITORS = ["refused-unchanged"]


def run(ctx):
    import os
    import warnings
    if ctx.shard % 4 == 2 or os.environ.get("VERIF_WARNINGS") == "error":
        # one more environment: warnings raised as exceptions (python -W error, pytest filterwarnings=error); a call that
        # ends in such an exception is a raising call like any other and must not have changed anything
        warnings.simplefilter("error")
        ctx.rec.count("worker-environments", "warnings-as-errors")
    struct_common.run_struct(ctx, PROPERTY, ctx.pick(1500, 150000), failing=0.6, value_heavy=True)


def replay(case, ctx):
    struct_common.replay(case, ctx, PROPERTY)
