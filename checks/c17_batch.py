"""C17 -- batch conversion tools never touch their inputs and isolate bad files.

Fault enumeration over directory trees assembled from file kinds x position x options.  Monitors:
  inputs-intact   SHA-256 of every input file and the listing of the input tree unchanged
  writes-confined every mutating file-system event of the run (audit hook: open for writing, mkdir, remove,
                  rename ...) lies inside the permitted output location (or the private TMPDIR cache)
  outputs-right   every output loads (strict XML reader / rdflib + RDF reader) and carries the content of its
                  source (C15's expected-1.1 model for converted 1.0 files, the file's own model for 1.1 files)
  isolates        (the two CLI tools) the run ends normally whatever the position and kind of bad files, the
                  report mentions every file, every convertible file has its output
"""
import io
import json
import os
import random
import shutil
import sys
import warnings

import yaml

from vlib import core, gen, model, fsmon
from vlib.model import enc, dec
from models import v1map, emit
from checks import c15_convert
from checks.c01_xml import strip_model

PROPERTY = "C17"
LEVEL = "fault_enumeration"
SHARDS = {"quick": 8, "thorough": 16}
RULE = ("directory trees assembled from file kinds {valid 1.0 XML/JSON/YAML, valid 1.1 XML/JSON/YAML, empty, non-XML "
        "text, malformed XML, XML of another vocabulary, 1.0 file with an unnamed Section, 1.0 XML stored as ISO-8859-1 / UTF-16 with non-ASCII text, empty / unparsable / non-odML .json and .yaml} with unique base names: all "
        "multisets of <= 3 kinds (quick: a seeded sample, thorough: complete) in seeded order and nesting (0-2 "
        "sub-directory levels) x recursive on/off x explicit/implicit output directory x tool {odmlconvert, odmltordf, "
        "FormatConverter for v1_1, odml, xml, turtle, nt, n3, json-ld, pretty-xml, ttl, ntriples, nt11, trig}; "
        "non-trivial = tree with at least one convertible and one unconvertible file; distinct = hash of the tree "
        "spec and the options")
ASSUMPTIONS = ["each case runs in the worker process with cwd set to a private scratch directory and a private TMPDIR; "
               "SystemExit of the tools is caught", "writes under the private TMPDIR (odml.cache) are permitted",
               "FormatConverter is judged for inputs-intact / writes-confined / outputs-right only (the isolation "
               "clause is stated for the two command line tools)", "trix is excluded (rdflib cannot write it from a plain graph)"]
REQUIRED_MONITORS = ["inputs-intact", "writes-confined", "outputs-right", "isolates"]

KINDS = ["v10-xml", "v10-json", "v10-yaml", "v11-xml", "v11-json", "v11-yaml", "empty", "text", "malformed-xml",
         "other-vocabulary", "v10-unnamed-section", "empty-json", "text-json", "empty-yaml", "text-yaml", "yaml-not-odml",
         "v10-xml-latin1", "v10-xml-utf16", "malformed-xml-v11", "dangling-link-v11"]
EXT = {"dangling-link-v11": ".xml", "v10-xml": ".xml", "v10-json": ".json", "v10-yaml": ".yaml", "v11-xml": ".xml", "v11-json": ".json",
       "v11-yaml": ".yaml", "empty": ".xml", "text": ".xml", "malformed-xml": ".odml", "other-vocabulary": ".xml",
       "v10-unnamed-section": ".xml", "empty-json": ".json", "text-json": ".json", "empty-yaml": ".yaml",
       "text-yaml": ".yaml", "yaml-not-odml": ".yaml", "v10-xml-latin1": ".xml", "v10-xml-utf16": ".xml", "malformed-xml-v11": ".xml"}
FC_FORMATS = ["v1_1", "odml", "xml", "turtle", "nt", "n3", "json-ld", "pretty-xml", "ttl", "ntriples", "nt11", "trig"]


def make_file(rng, kind_, path):
    """Writes one input file; returns the info the oracle needs."""
    info = {"kind": kind_}
    encoding = "utf-8"
    if kind_.startswith("v10") and kind_ != "v10-unnamed-section":
        doc = c15_convert.gen_doc(rng, hostile_values=0.0)
        info["abstract"] = doc
        if kind_ in ("v10-xml-latin1", "v10-xml-utf16"):
            # a correctly declared non-UTF-8 file with non-ASCII content (every character exists in Latin-1)
            doc["author"] = u"J\u00f6rg M\u00fcller"
            doc["sections"][0]["definition"] = u"Gr\u00f6\u00dfe \u00b5V \u00e9t\u00e9"
            encoding = "iso-8859-1" if kind_.endswith("latin1") else "utf-16"
            text = v1map.to_xml(doc).replace('encoding="UTF-8"', 'encoding="%s"' % encoding.upper())
            info["kind"] = "v10-xml"
            info["encoding"] = encoding
        elif kind_ == "v10-xml":
            text = v1map.to_xml(doc)
        elif kind_ == "v10-json":
            text = json.dumps(v1map.to_dict(doc), indent=1)
        else:
            text = yaml.safe_dump(v1map.to_dict(doc), allow_unicode=True)
    elif kind_.startswith("v11"):
        spec = gen.gen_doc(rng, max_nodes=6, hostile=0.1, tuples=False)
        for _, n in model.walk(spec):
            if n["k"] == "sec":
                n["repository"] = None
        spec["repository"] = None
        if rng.random() < 0.35 and spec["sections"] and not any(p_["name"] == "ions" for p_ in spec["sections"][0]["properties"]):
            # values that begin / end with a bracket inside a list of values (concentrations, intervals)
            spec["sections"][0]["properties"].append(
                {"k": "prop", "id": gen.new_id(rng), "name": "ions", "dtype": "string",
                 "values": rng.choice([["[Ca2+]", "[Mg2+]"], ["[0 255]", "open)", "(1 2]"], ["x", "[[nested]]"],
                                       # first / last values that need quoting in the list text
                                       ["Smith, John", "Miller", "Doe, Jane"], ['say "hi"', "plain", 'the "end"']]),
                 "unit": None, "uncertainty": None, "reference": None, "definition": None, "dependency": None,
                 "dependency_value": None, "value_origin": None, "val_cardinality": None})
        try:
            with warnings.catch_warnings():
                warnings.simplefilter("ignore")
                stated = gen.normal_form(spec)
                spec = model.model_of(gen.build_doc(spec))   # the normal form the API stores
                from checks.c01_xml import restate_dtypes
                restate_dtypes(spec, stated)                 # ... with the dtypes the specification names
        except Exception:
            pass
        from checks.c01_xml import foreign_safe
        spec = foreign_safe(spec)     # what a foreign tool can state unambiguously in the 1.1 text formats
        info["model"] = spec
        if kind_ == "v11-xml":
            text = emit.xml_from_model(spec)
        elif kind_ == "v11-json":
            text = json.dumps(emit.dict_from_model(spec, rng), indent=1)
        else:
            text = yaml.safe_dump(emit.dict_from_model(spec, rng), allow_unicode=True)
    elif kind_ == "dangling-link-v11":
        # a 1.1 file that loads and validates, but whose link cannot be resolved: nothing to convert (it is 1.1 already),
        # and no RDF can be made of it
        text = ('<?xml version="1.0" encoding="UTF-8"?>\n<odML version="1.1">\n<section><name>holder</name><type>t</type>'
                '<link>/nowhere/at all</link></section>\n<section><name>plain</name><type>t</type></section>\n</odML>\n')
    elif kind_ in ("empty", "empty-json", "empty-yaml"):
        text = ""
    elif kind_ == "text-json":
        text = "not json at all {\n"
    elif kind_ == "text-yaml":
        text = "key: [unclosed, list\nother: {a: 1\n"
    elif kind_ == "yaml-not-odml":
        text = "- just\n- a list\n"
    elif kind_ == "text":
        text = "just some notes, not markup\nsecond line\n"
    elif kind_ == "malformed-xml":
        text = '<?xml version="1.0"?>\n<odML version="1"><section><name>s</name><type>t</type></odML>\n'
    elif kind_ == "malformed-xml-v11":
        # damaged after an intact current-version beginning: nothing of it may be passed off as a conversion
        text = ('<?xml version="1.0"?>\n<odML version="1.1"><section><name>s</name><type>t</type><property><name>p</name>'
                '<value>1</value></property><section><name>cut</name></odML>\n')
    elif kind_ == "other-vocabulary":
        text = '<?xml version="1.0"?>\n<html><body><p>hello</p></body></html>\n'
    else:
        text = '<?xml version="1.0"?>\n<odML version="1"><section><type>t</type></section></odML>\n'
    with io.open(path, "w", encoding=encoding, errors="xmlcharrefreplace" if encoding != "utf-8" else "strict") as f:
        f.write(text)      # (characters outside the target encoding become character references, which is valid XML)
    return info


def build_tree(rng, kinds, root):
    files = {}
    os.makedirs(root)
    for i, k in enumerate(kinds):
        depth = rng.choice([0, 0, 1, 2])
        sub = os.path.join(root, *[rng.choice(["d%d", "d%d", ".d%d", "d[%d]"]) % rng.randrange(2) for _ in range(depth)])
        os.makedirs(sub, exist_ok=True)
        name = "f%d_%s%s" % (i, k.replace("-", "_"), EXT[k])
        path = os.path.join(sub, name)
        files[path] = make_file(rng, k, path)
        files[path]["depth"] = depth
    return files


def convertible(info, tool):
    k = info["kind"]
    if tool == "odmlconvert":
        return k in ("v10-xml", "v10-json", "v10-yaml")
    return k in ("v10-xml", "v10-json", "v10-yaml", "v11-xml", "v11-json", "v11-yaml")


def run_tool(tool, args):
    """Calls the tool in-process; returns (exit_info, captured_stdout)."""
    out = io.StringIO()
    old = sys.stdout, sys.stderr
    sys.stdout = sys.stderr = out
    try:
        try:
            if tool == "odmlconvert":
                from odml.scripts import odml_convert
                odml_convert.main(args)
            elif tool == "odmltordf":
                from odml.scripts import odml_to_rdf
                odml_to_rdf.main(args)
            else:
                from odml.tools.converters.format_converter import FormatConverter
                FormatConverter.convert(args)
            res = ("returned", None)
        except SystemExit as exc:
            res = ("exit", exc.code)
        except BaseException as exc:
            res = ("raised", exc)
    finally:
        sys.stdout, sys.stderr = old
    return res, out.getvalue()


def check_outputs_cli(rec, tool, files, out_dirs, report, case, recursive, indir):
    from odml.tools.xmlparser import XMLReader
    from odml.tools.rdf_converter import RDFReader
    conv_dir = out_dirs[0] if out_dirs else None
    rdf_dir = None
    if conv_dir and tool == "odmltordf":
        subs = [os.path.join(conv_dir, d) for d in os.listdir(conv_dir) if d.startswith("odmlrdf_")]
        rdf_dir = subs[0] if subs else None
    for path, info in files.items():
        considered = recursive or info["depth"] == 0
        base = os.path.splitext(os.path.basename(path))[0]
        rec.monitor("isolates")
        if considered and path not in report and os.path.basename(path) not in report:
            rec.violation("%s/report-omits-file:%s" % (tool, info["kind"]), "%s not mentioned" % os.path.basename(path), case)
        if considered and not convertible(info, tool) and not info["kind"].startswith("v11"):
            # reported and skipped: nothing in the output location may pass for its conversion
            rec.monitor("outputs-right")
            for d in out_dirs:
                for dp, _, fns in os.walk(d):
                    for fn in fns:
                        if info["kind"] == "dangling-link-v11" and fn.endswith(".xml"):
                            continue    # the 1.1 XML the tool makes of every source on its way to RDF is fine; no RDF can follow
                        if os.path.splitext(fn)[0] in (base, base + "_conv"):
                            rec.violation("%s/unconvertible-file-has-output:%s" % (tool, info["kind"]),
                                          "%s -> %s" % (os.path.basename(path), fn), case)
        if not considered or not convertible(info, tool):
            continue
        is10 = info["kind"].startswith("v10")
        exp_conv = os.path.join(conv_dir, base + "_conv.xml") if conv_dir else None
        loaded = None
        if is10:
            if not exp_conv or not os.path.exists(exp_conv):
                rec.violation("%s/convertible-file-without-output:%s" % (tool, info["kind"]),
                              "%s has no %s_conv.xml (report: %s)" % (os.path.basename(path), base, _report_line(report, path)), case)
                continue
            rec.monitor("outputs-right")
            try:
                with warnings.catch_warnings():
                    warnings.simplefilter("ignore")
                    loaded = XMLReader(ignore_errors=False, show_warnings=False).from_file(exp_conv)
            except Exception as exc:
                rec.violation("%s/converted-output-not-loadable:%s" % (tool, type(exc).__name__), "%s: %r" % (base, str(exc)[:150]), case)
                continue
            exp, alts, dropped, notes = v1map.expected(info["abstract"])
            for item in c15_convert.content_diffs(exp, alts, loaded):
                rec.violation("%s/converted-output-differs:%s" % (tool, item["field"]),
                              "%s: %s.%s expected %r got %r" % (base, item["path"], item["field"], item["exp"], item["obs"]), case)
        if tool == "odmltordf":
            rdf_name = (base + "_conv.rdf") if is10 else (base + ".rdf")
            rp = os.path.join(rdf_dir, rdf_name) if rdf_dir else None
            if not rp or not os.path.exists(rp):
                rec.violation("odmltordf/convertible-file-without-rdf:%s" % info["kind"],
                              "%s has no %s (report: %s)" % (os.path.basename(path), rdf_name, _report_line(report, path)), case)
                continue
            rec.monitor("outputs-right")
            try:
                with warnings.catch_warnings():
                    warnings.simplefilter("ignore")
                    docs = RDFReader().from_file(rp, "xml")
            except Exception as exc:
                rec.violation("odmltordf/rdf-output-not-importable:%s" % type(exc).__name__, "%s: %r" % (rdf_name, str(exc)[:150]), case)
                continue
            if len(docs) != 1:
                rec.violation("odmltordf/rdf-output-documents:%d" % len(docs), rdf_name, case)
                continue
            from checks.c10_rdf import normalise, IGNORE
            expm = strip_model(v1map.expected(info["abstract"])[0]) if is10 else strip_model(info["model"])
            got = strip_model(model.model_of(docs[0]))
            if is10:
                for (pe, ne), (pg, ng) in zip(model.walk(expm), model.walk(model.model_of(loaded))):
                    ne["id"] = ng.get("id")
                alts = v1map.expected(info["abstract"])[1]
            else:
                alts = {}
            for item in model.diff(normalise(expm), normalise(got), ignore=IGNORE + ("repository",), unordered=True):
                if item["field"] in ("id",) and is10:
                    continue
                pkey = (item["path"].rsplit("/", 1)[0] + ":" + item["path"].rsplit("/", 1)[1]) if "/" in item["path"] else ""
                if (pkey, item["field"]) in alts or (item["field"] == "values" and (pkey, "dtype") in alts):
                    continue
                if item["field"] == "values" and str(item.get("ctx", {}).get("dtype", "")) == "float":
                    pass
                rec.violation("odmltordf/rdf-content-differs:%s" % item["field"],
                              "%s: %s.%s expected %r got %r" % (rdf_name, item["path"], item["field"], item["exp"], item["obs"]), case)


def _report_line(report, path):
    for line in report.splitlines():
        if os.path.basename(path) in line and "Error" in line:
            return line[:200]
    return "(no error line)"


def run_case(case, ctx, sdir):
    rec = ctx.rec
    rng = random.Random(case["seed"])
    rec.evaluation()
    work = os.path.join(sdir, "c17_%d" % os.getpid())
    shutil.rmtree(work, ignore_errors=True)
    os.makedirs(work)
    indir = os.path.join(work, {True: "in put", "glob": "in[1]put", "star": "in*put?"}.get(case.get("space"), "input"))
    files = build_tree(rng, case["kinds"], indir)
    tool, recursive, explicit = case["tool"], case["recursive"], case["explicit_out"]
    outroot = os.path.join(work, "out")
    if explicit:
        os.makedirs(outroot)
        if case.get("stale_outputs") and tool == "format_converter":
            # the output directory is not empty: files named like the outputs to come, newer than the inputs
            ext = {"v1_1": ".xml", "odml": ".odml", "xml": ".rdf", "pretty-xml": ".rdf", "n3": ".n3", "turtle": ".ttl", "ttl": ".ttl",
                   "ntriples": ".nt", "nt": ".nt", "nt11": ".nt", "trig": ".trig", "json-ld": ".jsonld"}.get(case.get("format"))
            suit = {"v1_1": ("v10-xml",), "odml": ("v11-xml",)}.get(case.get("format"), ("v11-xml",))
            only_suitable = all(f["kind"] in suit and not f.get("encoding") for f in files.values())
            for ipath, info in files.items():
                if not only_suitable or not (recursive or info["depth"] == 0):
                    continue            # only where the converter is bound to write (it may stop at the first unsuitable file)
                b = os.path.splitext(os.path.basename(ipath))[0]
                rel = os.path.relpath(os.path.dirname(ipath), indir)
                for e_ in ([ext] if ext else []):
                    os.makedirs(os.path.join(outroot, rel), exist_ok=True)
                    with open(os.path.join(outroot, rel, b + e_), "w") as f_:
                        f_.write("stale content of an earlier run\n")
    cwd = os.path.join(work, "cwd")
    os.makedirs(cwd)
    kinds = [f["kind"] for f in files.values()]
    rec.case(core.h(case), any(convertible(f, "odmltordf") for f in files.values()) and
             any(not convertible(f, "odmltordf") for f in files.values()))
    rec.count("tools", tool)
    before_in = fsmon.tree_state(indir)
    before_all = fsmon.tree_state(work)
    old_cwd = os.getcwd()
    os.chdir(cwd)
    try:
        with warnings.catch_warnings():
            warnings.simplefilter("ignore")
            if tool in ("odmlconvert", "odmltordf"):
                args = (["-r"] if recursive else []) + (["-o", outroot] if explicit else []) + [indir]
            else:
                fmt = case["format"]
                args = [indir, fmt] + (["-out", outroot] if explicit else []) + (["-r"] if recursive else [])
            with fsmon.Recording() as fs:
                res, report = run_tool(tool, args)
    finally:
        os.chdir(old_cwd)
    rec.outcome("%s:%s" % (tool, res[0] if res[0] != "raised" else "raised-" + type(res[1]).__name__))
    # ---- inputs intact
    rec.monitor("inputs-intact")
    after_in = fsmon.tree_state(indir)
    if after_in != before_in:
        changed = sorted(set(before_in.items()) ^ set(after_in.items()))
        rec.violation("%s/input-tree-changed:%s" % (tool, "file-added" if len(after_in) > len(before_in) else "file-modified-or-removed"),
                      "%r" % [c[0] for c in changed][:3], case)
    # ---- writes confined
    rec.monitor("writes-confined")
    tmp = os.environ.get("TMPDIR", "/nonexistent")
    if tool in ("odmlconvert", "odmltordf"):
        base = outroot if explicit else cwd
        new_dirs = [os.path.join(base, d) for d in os.listdir(base) if d.startswith("odmlconv_")]
        allowed = new_dirs + [tmp]
    else:
        implicit = indir.rstrip("/") + "_" + case["format"]
        new_dirs = [outroot] if explicit else ([implicit] if os.path.isdir(implicit) else [])
        allowed = new_dirs + [tmp]
    stray = [e for e in fs.writes_outside(allowed) if not (e[0] == "tempfile.mkdtemp")]
    # creating the output directory itself is the one permitted event at the parent level
    stray = [e for e in stray if not (e[0] == "os.mkdir" and e[1] in new_dirs)]
    if stray:
        where = "input-tree" if any(p.startswith(indir) for e in stray for p in e[1:]) else "elsewhere"
        rec.violation("%s/write-outside-output-location:%s:%s" % (tool, where, stray[0][0]), "%r" % stray[:3], case)
    after_all = fsmon.tree_state(work)
    outside = {p for p in set(after_all) - set(before_all)
               if not any((os.path.join(work, p) + "/").startswith(a + "/") or os.path.join(work, p) == a for a in new_dirs)}
    if outside:
        rec.violation("%s/files-created-outside-output-location" % tool, "%r" % sorted(outside)[:3], case)
    # ---- CLI tools: normal termination, report, outputs
    if tool in ("odmlconvert", "odmltordf"):
        rec.monitor("isolates")
        if res[0] != "returned":
            rec.violation("%s/run-did-not-end-normally:%s" % (tool, res[0] if res[0] != "raised" else type(res[1]).__name__),
                          "%r" % (res[1],), case)
            return
        if len(new_dirs) != 1:
            rec.violation("%s/output-directories:%d" % (tool, len(new_dirs)), "", case)
        check_outputs_cli(rec, tool, files, new_dirs, report, case, recursive, indir)
    else:
        # FormatConverter: outputs that exist must be right
        rec.monitor("outputs-right")
        if res[0] == "raised":
            rec.count("format-converter-raised", "%s:%s" % (case["format"], type(res[1]).__name__))
        suitable = {"v1_1": ("v10-xml",), "odml": ("v11-xml",)}.get(case["format"], ("v11-xml",))
        if all(f["kind"] in suitable and not f.get("encoding") for f in files.values()):
            # only files the converter is meant for: the run ends normally and every considered file has its output
            if res[0] != "returned":
                rec.violation("format_converter/suitable-directory-not-converted:%s" % (
                    res[0] if res[0] != "raised" else type(res[1]).__name__), "%s: %r" % (case["format"], res[1]), case)
            else:
                for ipath, info in files.items():
                    if not (recursive or info["depth"] == 0):
                        continue
                    b = os.path.splitext(os.path.basename(ipath))[0]
                    found, fresh = 0, 0
                    for d_ in new_dirs:
                        for dp_, _, fns_ in os.walk(d_):
                            for fn in fns_:
                                if os.path.splitext(fn)[0] == b:
                                    found += 1
                                    with open(os.path.join(dp_, fn), "rb") as fh:
                                        fresh += not fh.read().startswith(b"stale content")
                    if not found:
                        rec.violation("format_converter/suitable-file-without-output:%s" % case["format"], os.path.basename(ipath), case)
                    elif not fresh:
                        # (left-overs with another extension are not the converter's business; its own target is)
                        rec.violation("format_converter/stale-output-kept:%s" % case["format"], b, case)
        from odml.tools.xmlparser import XMLReader
        import rdflib
        for d in new_dirs:
            for dp, _, fns in os.walk(d):
                for fn in fns:
                    p = os.path.join(dp, fn)
                    try:
                        with warnings.catch_warnings():
                            warnings.simplefilter("ignore")
                            if case["format"] in ("v1_1", "odml"):
                                out_doc = XMLReader(ignore_errors=False, show_warnings=False).from_file(p)
                                # content of the source: expected-1.1 model for 1.0 sources, own model for 1.1 XML
                                src = [(sp, si) for sp, si in files.items()
                                       if os.path.splitext(os.path.basename(sp))[0] == os.path.splitext(fn)[0]]
                                if len(src) == 1 and src[0][1]["kind"] in ("v10-xml", "v11-xml"):
                                    si = src[0][1]
                                    if si["kind"] == "v10-xml" and case["format"] == "v1_1":
                                        exp, alts, _, _ = v1map.expected(si["abstract"])
                                        diffs = c15_convert.content_diffs(exp, alts, out_doc)
                                    elif si["kind"] == "v11-xml":
                                        diffs = model.diff(strip_model(si["model"]), strip_model(model.model_of(out_doc)))
                                    else:
                                        diffs = []
                                    for item in diffs:
                                        rec.violation("format_converter/output-content-differs:%s:%s:%s" % (
                                            case["format"], si["kind"], item["field"]),
                                            "%s: %s.%s expected %r got %r" % (fn, item["path"], item["field"], item["exp"], item["obs"]), case)
                            else:
                                rf = {"ttl": "turtle", "ntriples": "nt", "nt11": "nt", "pretty-xml": "xml"}.get(case["format"], case["format"])
                                rdflib.Graph().parse(p, format=rf)
                    except Exception as exc:
                        if os.path.getsize(p) == 0:
                            rec.violation("format_converter/empty-output-file:%s" % case["format"], fn, case)
                        else:
                            rec.violation("format_converter/output-not-loadable:%s:%s" % (case["format"], type(exc).__name__),
                                          "%s: %r" % (fn, str(exc)[:120]), case)
    shutil.rmtree(work, ignore_errors=True)


def compositions(maxn):
    import itertools
    out = []
    for n in range(1, maxn + 1):
        out.extend(itertools.combinations_with_replacement(KINDS, n))
    return out


def run(ctx):
    from vlib import env
    sdir = env.scratch()
    rec = ctx.rec
    comps = compositions(3)
    if ctx.shard == 0:
        rec.extra["compositions_up_to_3"] = len(comps)
    rng0 = random.Random("C17|%s" % ctx.seed)
    order = list(range(len(comps)))
    rng0.shuffle(order)
    chosen = order if not ctx.quick() else order[:260]
    i = 0
    for ci in chosen:
        kinds = list(comps[ci])
        for tool in ("odmlconvert", "odmltordf", "format_converter"):
            i += 1
            if not ctx.mine(i):
                continue
            rng = random.Random("C17|%s|%d" % (ctx.seed, i))
            rng.shuffle(kinds)
            case = {"kinds": kinds, "tool": tool, "recursive": rng.random() < 0.6, "explicit_out": rng.random() < 0.5,
                    "seed": "C17|%s|%d" % (ctx.seed, i), "space": rng.choice([False, False, False, False, True, "glob", "star"])}
            if not ctx.quick() and tool != "format_converter":
                # thorough: every composition under all four option combinations
                for rec_, exp_ in ((True, True), (True, False), (False, True), (False, False)):
                    c2 = dict(case, recursive=rec_, explicit_out=exp_)
                    run_case(c2, ctx, sdir)
                continue
            if tool == "format_converter":
                case["format"] = rng.choice(FC_FORMATS)
                case["stale_outputs"] = rng.random() < 0.3
                if rng.random() < 0.6:
                    # directories the converter is meant for: only files of the suitable kind
                    case["kinds"] = [rng.choice(["v10-xml"] if case["format"] == "v1_1" else ["v11-xml"])
                                     for _ in range(rng.choice([1, 2, 3]))]
            run_case(case, ctx, sdir)
            if i % 100 == 1:
                rec.sample(case)
            if ctx.time_left() < 0:
                return
    for j in range(ctx.pick(10, 3000)):
        if not ctx.mine(j):
            continue
        rng = random.Random("C17big|%s|%d" % (ctx.seed, j))
        case = {"kinds": [rng.choice(KINDS) for _ in range(rng.randrange(4, 9))], "tool": rng.choice(["odmlconvert", "odmltordf"]),
                "recursive": True, "explicit_out": rng.random() < 0.5, "seed": "C17big|%s|%d" % (ctx.seed, j), "space": False}
        run_case(case, ctx, sdir)


def replay(case, ctx):
    from vlib import env
    run_case(case, ctx, env.scratch())
