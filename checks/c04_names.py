"""C04 -- sibling names stay unique; names and ids are never empty or malformed.
Invariant-at-a-hook over the universe of live objects after every driver-issued public call."""
from checks import struct_common

PROPERTY = "C04"
LEVEL = "exploration"
SHARDS = {"quick": 8, "thorough": 16}
RULE = ("directed deck with one scripted micro-history per (operation x argument pre-state class) cell, then "
        "seeded random histories of 5..40 public editing operations over 1-2 documents with names from a "
        "3-letter alphabet; after every operation the sibling-name, name and id predicates plus the per-operation id/name post-conditions are evaluated; non-trivial = history with "
        "more than 2 operations; distinct = hash of the op list")
ASSUMPTIONS = ["the repository's own test-suite runs once more under the naming predicates (evaluated on everything a test created, after each test)",
               "operations are issued through the public API only; private fields are only read",
               "a history is abandoned at its first violation of C03-C06 (later states are unreachable for a "
               "correct implementation); cells with an open known finding are skipped in the random phase and "
               "re-confirmed by the directed deck in the same run"]
REQUIRED_MONITORS = ["naming-invariant"]


def run(ctx):
    struct_common.run_struct(ctx, PROPERTY, ctx.pick(1500, 150000))


def replay(case, ctx):
    struct_common.replay(case, ctx, PROPERTY)
