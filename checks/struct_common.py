"""Shared driver of C03 / C04 / C05 / C06: directed deck + random histories under vlib.histrun."""
from vlib import core, hist, histrun
from vlib.model import enc

CREATING = {"doc", "sec", "prop", "create_section", "create_property", "clone"}


def known_cells():
    cells = set()
    for k in core.load_known():
        if k["property"] in ("C03", "C04", "C05", "C06") and k.get("status") == "open" and "/" in k["key"]:
            cell = k["key"].split("/")[0]
            cells.add(cell)
            # C06 keys carry the exception type as an extra tag-like effect; the cell is the same
    return cells


def shrink(runner, ops, key, family):
    """Delta debugging (one-at-a-time removal) against the same monitor and key."""
    cur = list(ops)
    budget = 300
    i = len(cur) - 2
    while i >= 0 and budget > 0:
        budget -= 1
        cand = cur[:i] + ([["nop"]] if cur[i][0] in CREATING else []) + cur[i + 1:]
        probe = histrun.Runner(core.Recorder(), runner.prop)
        try:
            events, _ = probe.run(cand, report=False)
        except Exception:
            events = []
        if any(f == family and k == key for f, k, _ in events):
            cur = cand
        i -= 1
    return cur


def run_struct(ctx, prop, n_random, length=(5, 40), failing=0.3, value_heavy=False):
    rec = ctx.rec
    runner = histrun.Runner(rec, prop)
    fam = histrun.FAMILY_OF[prop]
    # 1. directed deck: every (operation x pre-state class) cell, on every seed
    decks = [("struct", histrun.deck())]
    if prop in ("C05", "C06"):
        decks.append(("value", histrun.value_deck()))
    i = 0
    for dname, deck in decks:
        for name, ops in deck:
            i += 1
            if not ctx.mine(i):
                continue
            events, done = runner.run(ops, label="deck:" + name)
            rec.case(core.h(["deck", name, ops]), True)
            rec.count("deck", dname)
            if i % 97 == 0:
                rec.sample({"deck": name, "ops": ops[len(histrun.BASE):] if dname == "struct" else ops})
    # 1b. the repository's own test-suite as one more workload for the tree / naming / value invariants (one shard)
    if prop in ("C03", "C04", "C05") and ctx.shard == 0:
        from checks import repo_tests
        repo_tests.run(ctx, prop)
    # 2. random histories; cells with an open known finding are skipped (re-confirmed by the deck above)
    skip = known_cells()
    rec.extra["skipped_cells_with_open_findings"] = sorted(skip) if ctx.shard == 0 else []
    for j in range(n_random):
        if not ctx.mine(j):
            continue
        rng = ctx.rng("hist", j)
        rng.seed("%s|%s|hist|%d" % ("struct", ctx.seed, j))
        if value_heavy and j % 2 == 0:
            ops = histrun.rand_value_ops(rng, rng.randrange(1, 7))
        else:
            ops = histrun.random_history(rng, runner, rng.randrange(*length), failing, skip)
        probe = histrun.Runner(core.Recorder(), prop)
        events, done = runner.run(ops, label="random:%d" % j, report=False)
        rec.case(core.h(["rand", ops]), len(ops) > 2)
        mine = [(f, k, w) for f, k, w in events if f == fam]
        for f, k, w in mine:
            small = shrink(runner, done, k, fam) if not core_known(prop, k) else done
            rec.violation(k, w, {"ops": small, "label": "random:%d" % j})
        if j < 3:
            rec.sample({"random": j, "ops": ops[:12], "len": len(ops)})
        if ctx.time_left() < 0:
            rec.extra["stopped_early_at_history"] = j
            break


_KNOWN = None


def core_known(prop, key):
    global _KNOWN
    if _KNOWN is None:
        _KNOWN = {(k["property"], k["key"]) for k in core.load_known() if k.get("status") == "open"}
    return (prop, key) in _KNOWN


def replay(case, ctx, prop):
    if "repo_test" in case:
        from checks import repo_tests
        return repo_tests.run(ctx, prop)
    runner = histrun.Runner(ctx.rec, prop)
    events, done = runner.run(case["ops"], label="replay")
    for f, k, w in events:
        from vlib import env
        env.say("replay event family=%s key=%s :: %s" % (f, k, w))
