"""C15 -- version conversion 1.0 -> 1.1 keeps the content and yields a loadable file.

Generated abstract odML 1.0 documents are emitted as 1.0 XML / JSON / YAML (models/v1map.py), converted by
the real VersionConverter and judged by:
  loadable    XMLReader(ignore_errors=False) loads convert()'s result without error
  content     the loaded document == the model's expected 1.1 document (Section tree, Properties, values in
              order, lifted unit / uncertainty / dtype / value origin / definition / reference, unique names by
              numeric suffix, valid ids kept, others replaced by canonical ones, binary -> text); where 1.0 values
              disagree any of the candidates is accepted
  logged      everything dropped (unnamed Properties, unsupported elements) is mentioned in conversion_log
  source      source bytes / StringIO content unchanged and never opened for writing (audit hook)
  file        write_to_file writes exactly what convert() returns
"""
import hashlib
import io
import json
import os
import warnings

import yaml

from vlib import core, model, fsmon, hist
from vlib.model import enc, dec
from models import v1map
from checks.c01_xml import strip_model

PROPERTY = "C15"
LEVEL = "exploration"
SHARDS = {"quick": 8, "thorough": 16}
RULE = ("seeded abstract 1.0 documents: any tree, 0..4 value elements per Property with unit / uncertainty / type or "
        "dtype / filename / definition / reference on the first, a later or all values, agreeing or conflicting, "
        "duplicate sibling names at any level (incl. a pre-existing 'x-2'), present / absent / malformed ids, "
        "unsupported elements at every level, unnamed Properties, dependency_value spelling, 'binary' values, XML "
        "comments; x source format XML / JSON / YAML x StringIO / file input; non-trivial = document with a "
        "multi-valued Property or a lifted value attribute; distinct = hash of the abstract document")
ASSUMPTIONS = ["no repository / include URLs (they would need the network)",
               "conflicting per-value attributes: any candidate is accepted for the lifted attribute",
               "uncertainty is compared by text (the XML form is text)"]
REQUIRED_MONITORS = ["loadable", "content", "logged", "source", "file"]

REPO_TEXTS = ["local/terms.xml", "terms", "../shared/t.xml", "/abs/path/terms.xml", "C:\\terms.xml"]
WORDS = ["alpha", "beta", "x", "rec", "stim", "n1", "v 2", "ä", u"cafe\u0301", u"\u2126", u"\u212bm"]
DTYPES = ["string", "int", "float", "text", "boolean", None, None, "string", "int", "float", "text", "boolean", None, None,
          "URL", "Text", "time", "date", "datetime"]        # (a 1.0 file may spell a type name with capitals; the name is kept as written)


def gen_doc(rng, hostile_values=0.15, comments=False):
    def ident():
        r = rng.random()
        if r < 0.4:
            return None
        if r < 0.75:
            import uuid
            return str(uuid.UUID(int=rng.getrandbits(128), version=4))
        if r < 0.85:
            import uuid
            return str(uuid.UUID(int=rng.getrandbits(128), version=4)).upper()
        if r < 0.9:
            import uuid
            # any 128 bit number is an id the library accepts (no RFC 4122 variant / version bits), also hand-written ones
            return rng.choice([str(uuid.UUID(int=rng.getrandbits(128))), "12345678-1234-5678-1234-%012d" % rng.randrange(10 ** 12),
                               "00000000-0000-0000-0000-%012d" % rng.randrange(10 ** 12)])
        return rng.choice(["123", "not-an-id", "", "zz-11"]) or None

    def vtext(dtype):
        if dtype == "int":
            return str(rng.choice([0, 0, rng.randrange(-50, 50)]))
        if dtype == "float":
            return repr(rng.choice([1.5, -2.25, 0.1, 3.0, 1e-5, 0.0, 0.30000000000000004, 3.141592653589793, 1.0 / 3, 1e22]))
        if dtype == "boolean":
            return rng.choice(["true", "False", "1", "0"])
        if dtype == "time":
            return rng.choice(["12:30:05", "9:05:00", "23:59:59", "0:0:0", "07:08:09"])
        if dtype == "date":
            return rng.choice(["2019-05-06", "2019-5-6", "1999-12-31"])
        if dtype == "datetime":
            return rng.choice(["2019-05-06 12:30:05", "2019-5-6 9:05:00", "1999-12-31 23:59:59"])
        if rng.random() < hostile_values:
            return rng.choice(["a,b", 'say "hi"', "[x]", "l1\nl2", " padded ", "semi;colon", "<tag>", "a&b"])
        return rng.choice(WORDS) + str(rng.randrange(100))

    def prop(name):
        dtype = rng.choice(DTYPES)
        n = rng.choice([0, 1, 1, 2, 3, 4])
        vals = [{"text": vtext(dtype)} for _ in range(n)]
        for v in vals:
            if rng.random() < 0.1:
                v["text"] = rng.choice(["", "  "])       # a value element that only carries attributes
        place = rng.choice(["first", "later", "all", "none"])
        conflict = rng.random() < 0.12
        type_tag = rng.choice(["type", "type", "dtype"])
        for i, v in enumerate(vals):
            on = (place == "all") or (place == "first" and i == 0) or (place == "later" and i == len(vals) - 1)
            if dtype and (on or i == 0):
                v["type"] = dtype if not (conflict and i > 0 and rng.random() < 0.5) else "string"
            if on:
                if rng.random() < 0.5:
                    v["unit"] = "mV" if not (conflict and i > 0) else "V"
                if rng.random() < 0.3:
                    v["uncertainty"] = "0.5" if not (conflict and i > 0) else "0.7"
                if rng.random() < 0.3:
                    v["filename"] = "data%d.bin" % (0 if not conflict else i)
                if rng.random() < 0.25:
                    v["definition"] = "value def"
                if rng.random() < 0.25:
                    v["reference"] = "value ref"
            if rng.random() < 0.1:
                v[rng.choice(v1map.UNSUPPORTED_VALUE)] = "dropme"
            if comments and rng.random() < 0.3:
                v["_xmlcomment"] = "value comment"
        if vals and rng.random() < 0.06:
            vals[0]["type"] = "binary"
            for v in vals[1:]:
                if "type" in v:
                    v["type"] = "binary"
        p = {"name": name, "values": vals, "type_tag": type_tag, "id": ident(), "native": rng.random() < 0.3,
             "definition": "prop def" if rng.random() < 0.2 else None,
             "dependency": "other" if rng.random() < 0.15 else None, "unsupported": []}
        if p["dependency"]:
            p["dependency_value"] = "dv"
            p["depval_tag"] = rng.choice(["dependency_value", "dependencyvalue"])
        if rng.random() < 0.12:
            p["unsupported"].append((rng.choice(v1map.UNSUPPORTED_PROP), "gone"))
        if comments and rng.random() < 0.2:
            p["comment"] = "a comment"
        return p

    def names(n, pool):
        out = []
        for _ in range(n):
            r = rng.random()
            if out and r < 0.25:
                out.append(rng.choice(out))            # duplicate sibling name
            elif out and r < 0.3:
                out.append(rng.choice(out) + "-2")     # pre-existing suffix
            elif out and r < 0.36:
                out.append(rng.choice(out).swapcase())  # a sibling name in other letter case: another name
            else:
                out.append(rng.choice(pool) + str(rng.randrange(4)))
        return out

    def sec(name, depth):
        s = {"name": name, "type": rng.choice(["rec", "stim/white", "t"]), "id": ident(),
             "definition": "sec def" if rng.random() < 0.3 else None,
             "reference": "sec ref" if rng.random() < 0.2 else None, "unsupported": [], "properties": [], "sections": []}
        if rng.random() < 0.12:
            s["unsupported"].append((rng.choice(v1map.UNSUPPORTED_SEC), "gone"))
        if rng.random() < 0.06:
            s["repository"] = rng.choice(REPO_TEXTS)      # no URL: nothing is fetched, the text is kept
        if comments and rng.random() < 0.2:
            s["comment"] = "sec comment"
        for n in names(rng.choice([0, 1, 2, 3]), ["p", "q", "prop"]):
            s["properties"].append(prop(n))
        if rng.random() < 0.08:
            p = prop("x")
            p["name"] = None
            s["properties"].insert(rng.randrange(len(s["properties"]) + 1), p)
        if depth > 0:
            for n in names(rng.choice([0, 1, 2]), ["s", "sub"]):
                s["sections"].append(sec(n, depth - 1))
        return s
    d = {"id": ident() if rng.random() < 0.5 else None, "author": "Author A" if rng.random() < 0.5 else None, "version": "v1" if rng.random() < 0.4 else None,
         "date": "2019-05-06" if rng.random() < 0.4 else None, "unsupported": [], "sections": []}
    if rng.random() < 0.15:
        d["unsupported"].append((rng.choice(v1map.UNSUPPORTED_DOC), "gone"))
    if rng.random() < 0.1:
        d["repository"] = rng.choice(REPO_TEXTS)
    for n in names(rng.choice([1, 2, 3]), ["sec", "top"]):
        d["sections"].append(sec(n, rng.choice([0, 1, 2])))
    if rng.random() < 0.15:
        # twin branches: the same sub-tree (equally named parents with equally named children) below two different tops
        import copy
        twin = copy.deepcopy(rng.choice(d["sections"]))
        twin["name"] = "twin" + str(rng.randrange(4))

        def strip_ids(x):
            x["id"] = None
            for p in x.get("properties", []):
                p["id"] = None
            for c in x.get("sections", []):
                strip_ids(c)
        strip_ids(twin)
        d["sections"].append(twin)
    return d


def classify(item, notes, fmt):
    """Mechanism key of one content difference."""
    f = item["field"]
    hazards = [n for n in ("rename-collides-with-existing-name", "conflicting-value-dtypes",
                           "value-not-convertible-to-lifted-dtype", "value-text-with-csv-special-character") if n in notes]
    if f in ("values", "child-missing", "replaced-by-default", "dtype") and hazards:
        return "content/%s:%s" % (f, hazards[0])
    if f in ("child-missing", "child-extra", "sections.order", "properties.order") and "rename-collides-with-existing-name" in notes:
        return "content/%s:rename-collides-with-existing-name" % f
    return "content/%s.%s" % (item.get("kind", "?"), f)


def content_diffs(exp, alts, loaded, rec=None):
    """Differences between the expected 1.1 model and a loaded document, don't-care zones removed."""
    out = []
    got = strip_model(model.model_of(loaded))
    expm = strip_model(exp)
    # ids: valid ones kept, others replaced by canonical ones
    for (pe, ne), (pg, ng) in zip(model.walk(expm), model.walk(got)):
        if ne.get("id") is None and hist.canonical_id(ng.get("id")):
            ne["id"] = ng["id"]
    for item in model.diff(expm, got):
        pkey = (item["path"].rsplit("/", 1)[0] + ":" + item["path"].rsplit("/", 1)[1]) if "/" in item["path"] else item["path"]
        alt = alts.get((pkey, item["field"])) if item.get("kind") == "prop" else None
        if alt is not None and (item["obs"] in [str(a).strip() for a in alt] or item["obs"] in alt):
            if rec is not None:
                rec.count("dont-care", "lifted-attribute-one-of-candidates")
            continue
        if item["field"] == "values" and alt is None and item.get("kind") == "prop":
            if alts.get((pkey, "dtype")) is not None:
                if rec is not None:
                    rec.count("dont-care", "values-under-conflicting-dtypes")
                continue
        out.append(item)
    return out


def run_case(case, ctx, sdir):
    from odml.tools.converters import VersionConverter
    from odml.tools.xmlparser import XMLReader
    rec = ctx.rec
    doc = dec(case["doc"])
    fmt, inp = case["fmt"], case["input"]
    rec.evaluation()
    exp, alts, dropped, notes = v1map.expected(doc)
    nontriv = any(len(p["values"]) > 1 or any(k in v for v in p["values"] for k in v1map.VALUE_ATTRS)
                  for _, n in _walk(doc) for p in n["properties"])
    rec.case(core.h([case["doc"], fmt, inp]), nontriv)
    rec.count("config", "%s/%s" % (fmt, inp))
    for n in notes:
        rec.count("hazards", n)
    with warnings.catch_warnings():
        warnings.simplefilter("ignore")
        if fmt == "XML":
            text = v1map.to_xml(doc, comments=case.get("comments", False))
        elif fmt == "JSON":
            text = json.dumps(v1map.to_dict(doc), indent=1)
        else:
            text = yaml.safe_dump(v1map.to_dict(doc), allow_unicode=True)
        src = os.path.join(sdir, "c15src_%d.%s" % (os.getpid(), fmt.lower()))
        with io.open(src, "w", encoding="utf-8") as f:
            f.write(text)
        digest = hashlib.sha256(open(src, "rb").read()).hexdigest()
        sio = None
        if inp == "stringio":
            if fmt != "XML":
                return
            # every other text stream holds the file as it is, XML declaration included; the others only the root element
            keep_decl = core_int(case) % 2 == 0
            rec.count("stringio-declaration", "kept" if keep_decl else "cut")
            sio_text = text if keep_decl or not text.startswith("<?xml") else text.split("?>", 1)[1]
            sio = io.StringIO(sio_text)
            pos = [0, "end", 7][core_int(case) % 3]
            sio.seek(0, 2) if pos == "end" else sio.seek(pos)      # (as after write() / after a peek at the first line)
            rec.count("stringio-position", str(pos))
            source = sio
        else:
            source = src
        conv = VersionConverter(source)
        with fsmon.Recording() as fs:
            try:
                out = conv.convert(fmt)
            except Exception as exc:
                rec.outcome("convert-raised:" + type(exc).__name__)
                why = "xml-comment" if case.get("comments") and fmt == "XML" else "wellformed-1.0-document"
                rec.violation("convert/raised-%s:%s" % (type(exc).__name__, why), "%s: %r" % (fmt, str(exc)[:200]), case)
                return
        rec.outcome("converted")
        # ---- source untouched
        rec.monitor("source")
        if hashlib.sha256(open(src, "rb").read()).hexdigest() != digest:
            rec.violation("source/file-modified", fmt, case)
        if sio is not None and sio.getvalue() != sio_text:
            rec.violation("source/stringio-modified", fmt, case)
        if any(e[0] != "open-read" and src in e[1:] for e in fs.events):
            rec.violation("source/opened-for-writing", repr([e for e in fs.events if src in e[1:]][:2]), case)
        # ---- loadable
        rec.monitor("loadable")
        rd = XMLReader(ignore_errors=False, show_warnings=False)
        try:
            loaded = rd.from_string(out)
        except Exception as exc:
            prio = ["rename-collides-with-existing-name", "conflicting-value-dtypes", "value-not-convertible-to-lifted-dtype",
                    "value-text-with-csv-special-character"]
            hazards = [h for h in prio if h in notes]
            rec.violation("loadable/strict-reader-rejects-result:%s" % (hazards[0] if hazards else type(exc).__name__),
                          "%s: %r" % (fmt, str(exc)[:200]), case)
            return
        # the same reader loads the result a second time (e.g. the StringIO and the file route of one source, which carry
        # the same ids): a loadable result stays loadable and gives the same document
        try:
            again = rd.from_string(out)
            d2 = model.diff(model.model_of(loaded), model.model_of(again))
            if d2:
                rec.violation("loadable/second-load-by-the-same-reader-differs:%s" % d2[0]["field"], fmt, case)
        except Exception as exc:
            rec.violation("loadable/second-load-by-the-same-reader-raised-%s" % type(exc).__name__, "%s: %r" % (fmt, str(exc)[:200]), case)
        # ---- content
        rec.monitor("content")
        for item in content_diffs(exp, alts, loaded, rec):
            rec.violation(classify(item, notes, fmt), "%s: %s.%s expected %r got %r" % (
                fmt, item["path"], item["field"], item["exp"], item["obs"]), case)
        # ---- dropped items logged
        rec.monitor("logged")
        log = "\n".join(conv.conversion_log)
        for what, tag in dropped:
            if what == "unnamed-property":
                if "without name" not in log and "Omitted Property" not in log:
                    rec.violation("logged/unnamed-property-not-logged", fmt, case)
            elif tag not in log:
                rec.violation("logged/%s-not-logged" % what, "%s: %r missing in %r" % (fmt, tag, log[:200]), case)
        # every dropped item has its own entry: as many entries mention a tag as items with that tag were dropped
        from collections import Counter
        for (what, tag), n_dropped in Counter(dropped).items():
            if what == "unnamed-property":
                n_logged = sum(1 for line in conv.conversion_log if "without name" in line or "Omitted Property" in line)
            else:
                n_logged = sum(1 for line in conv.conversion_log if tag in line)
            if 0 < n_logged < n_dropped:
                rec.violation("logged/%s-logged-fewer-times-than-dropped" % what, "%s: %r dropped %d times, %d log entries" % (
                    fmt, tag, n_dropped, n_logged), case)
        for (path, field), cands in alts.items():
            if "already exported" not in log and field != "dtype":
                rec.violation("logged/conflicting-value-attribute-not-logged", "%s %s" % (path, field), case)
                break
        # ---- write_to_file == convert
        rec.monitor("file")
        outp = os.path.join(sdir, "c15out_%d.xml" % os.getpid())
        if os.path.exists(outp):
            os.remove(outp)
        if sio is None:
            # the target is named the way users do: absolute, relative with a directory part, or a bare name in the
            # current directory (with and without the .xml ending)
            how = ["absolute", "bare-relative", "relative-with-dir", "bare-no-extension"][core_int(case) % 4]
            rec.count("target-path-form", how)
            old_cwd = os.getcwd()
            try:
                os.chdir(sdir)
                target = {"absolute": outp, "bare-relative": os.path.basename(outp),
                          "relative-with-dir": os.path.join(".", os.path.basename(outp)),
                          "bare-no-extension": os.path.basename(outp)[:-4]}[how]
                VersionConverter(src).write_to_file(target, fmt)
                with io.open(outp, encoding="utf-8") as f:
                    written = f.read()
                body = written.split("?>", 1)[1].lstrip("\n") if written.startswith("<?xml") else written
                if _norm_ids(body) != _norm_ids(out):
                    rec.violation("file/differs-from-convert", fmt, case)
            except Exception as exc:
                rec.violation("file/raised-%s:%s" % (type(exc).__name__, how), repr(exc)[:200], case)
            finally:
                os.chdir(old_cwd)


def core_int(case):
    return int(core.h([case.get("doc"), case.get("fmt")]), 16) if isinstance(core.h([1]), str) else 0


import re
_ID = re.compile(r"<id>[0-9a-f-]{36}</id>")


def _norm_ids(s):
    return _ID.sub("<id>X</id>", s)


def _walk(doc):
    def rec(s, path):
        yield path, s
        for c in s["sections"]:
            for x in rec(c, path + "/" + c["name"]):
                yield x
    for s in doc["sections"]:
        for x in rec(s, "/" + s["name"]):
            yield x


def run(ctx):
    from vlib import env
    import random
    sdir = env.scratch()
    rec = ctx.rec
    for i in range(ctx.pick(600, 60000)):
        if not ctx.mine(i):
            continue
        rng = random.Random("C15|%s|%d" % (ctx.seed, i))
        comments = rng.random() < 0.1
        doc = gen_doc(rng, comments=comments)
        for fmt in ("XML", "JSON", "YAML"):
            for inp in ("file", "stringio"):
                case = {"doc": enc(doc), "fmt": fmt, "input": inp, "comments": comments, "i": i}
                run_case(case, ctx, sdir)
        if i < 3:
            rec.sample({"first_section": enc(doc["sections"][0]) if len(json.dumps(doc["sections"][0])) < 900 else "(large)"})
        if ctx.time_left() < 0:
            break


def replay(case, ctx):
    from vlib import env
    run_case(case, ctx, env.scratch())
