"""C03 -- a document is always a well-formed tree, whatever editing history produced it.
Invariant-at-a-hook over the universe of live objects after every driver-issued public call."""
from checks import struct_common

PROPERTY = "C03"
LEVEL = "exploration"
SHARDS = {"quick": 8, "thorough": 16}
RULE = ("directed deck with one scripted micro-history per (operation x argument pre-state class) cell, then "
        "seeded random histories of 5..40 public editing operations over 1-2 documents with names from a "
        "3-letter alphabet; after every operation the whole-universe tree invariants are evaluated and the "
        "path/document/traversal queries are driven under a logical step budget; non-trivial = history with "
        "more than 2 operations; distinct = hash of the op list")
ASSUMPTIONS = ["the repository's own test-suite runs once more under the tree predicates (evaluated on everything a test created, after each test)",
               "operations are issued through the public API only; private fields are only read",
               "a history is abandoned at its first violation of C03-C06 (later states are unreachable for a "
               "correct implementation); cells with an open known finding are skipped in the random phase and "
               "re-confirmed by the directed deck in the same run"]
REQUIRED_MONITORS = ["tree-invariant"]


def run(ctx):
    struct_common.run_struct(ctx, PROPERTY, ctx.pick(1500, 150000))


def replay(case, ctx):
    struct_common.replay(case, ctx, PROPERTY)
