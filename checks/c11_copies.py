"""C11 -- copies handed out are equal to, and independent of, the original.

Monitors:
  alias      after clone / export_leaf / clone_section: the identity sets of all odML objects and all mutable
             containers (child lists, value lists, nested tuple lists) reachable from copy and original are
             disjoint; decides 'all sub-objects are new' without needing the lucky edit
  equal      copy == original (library ==, children=True) and model-equal ignoring ids; detached; ids all fresh
             or (keep_id) all identical position-wise; children=False => no children
  leaf       export_leaf == exactly the chain root -> object, every Section on it with all its Properties and
             no other sub-Section, original ids, Document on top iff the original has one
  values     list returned by .values and its members share no identity with the stored values; a list passed
             in is not retained
  edit       random edit history on the copy leaves the original's deep model unchanged, and vice versa
"""
import os
import warnings

from vlib import core, gen, model
from vlib.model import enc, dec, kind
from checks.c01_xml import no_ids

PROPERTY = "C11"
LEVEL = "exploration"
SHARDS = {"quick": 8, "thorough": 16}
RULE = ("seeded documents (vlib/gen.py, every dtype incl. n-tuples) x every node as clone / export_leaf root x flag "
        "combinations (children, keep_id) x random edit histories (value edits, renames, attribute changes, "
        "structural edits, cardinality changes) applied to the copy and, symmetrically, to the original; plus "
        "TemplateHandler.clone_section over file: URLs; non-trivial = root with at least one child or value; "
        "distinct = hash of (document spec without ids, node index, flags)")
ASSUMPTIONS = ["the merge partner reference (_merged) of a copy is not a sub-object and is not judged",
               "equality ignoring ids is judged on the pure-data model (vlib/model.py) and with the library's =="]
REQUIRED_MONITORS = ["alias", "equal", "leaf", "values", "edit"]


def reach(o, seen=None):
    """ids of every odML object and mutable container reachable downwards from o."""
    out = {}
    stack = [o]
    while stack:
        x = stack.pop()
        if id(x) in out:
            continue
        out[id(x)] = type(x).__name__
        d = x.__dict__
        for lst in ("_sections", "_props"):
            if lst in d:
                out[id(d[lst])] = lst
                stack.extend(list.__iter__(d[lst]))
        if "_values" in d:
            out[id(d["_values"])] = "_values"
            for v in d["_values"]:
                if isinstance(v, list):
                    out[id(v)] = "tuple-value"
    return out


def nodes(doc):
    out = [doc]
    queue = list(doc.sections)
    while queue:
        s = queue.pop(0)
        out.append(s)
        out.extend(list(s.properties))
        queue.extend(list(s.sections))
    return out


def ids_in_order(o):
    return [n.get("id") for _, n in model.walk(model.model_of(o))]


def check_clone(rec, orig, children, keep_id, case):
    k = kind(orig)
    try:
        cp = orig.clone(keep_id=keep_id) if k == "prop" else orig.clone(children=children, keep_id=keep_id)
    except Exception as exc:
        rec.violation("clone:%s/raised-%s" % (k, type(exc).__name__), repr(exc), case)
        return None
    rec.monitor("alias")
    shared = set(reach(orig)) & set(reach(cp))
    if shared:
        what = sorted({reach(orig)[i] for i in shared})
        rec.violation("clone:%s/shares-%s" % (k, "+".join(what)), "copy and original share %s" % what, case)
    rec.monitor("equal")
    if cp.__dict__.get("_parent") is not None or (k != "doc" and cp.parent is not None):
        rec.violation("clone:%s/not-detached" % k, "parent %r" % cp.parent, case)
    mo, mc = model.model_of(orig), model.model_of(cp)
    if k != "prop" and not children:
        if mc.get("sections") or mc.get("properties"):
            rec.violation("clone:%s/children=False-has-children" % k, "", case)
        mo = dict(mo, sections=[], **({"properties": []} if "properties" in mo else {}))
    d = model.diff(mo, mc, ignore=("id",))
    if d:
        rec.violation("clone:%s/content-differs:%s" % (k, d[0]["field"]), repr(d[:2]), case)
    elif (k == "prop" or children):
        try:
            eq = (cp == orig) and not (cp != orig)
        except Exception as exc:
            eq = "raised %r" % exc
        if eq is not True:
            rec.violation("clone:%s/library-eq-false" % k, "copy == original gave %r" % (eq,), case)
    io, ic = ids_in_order(orig if (k == "prop" or children) else orig), ids_in_order(cp)
    if k != "prop" and not children:
        io = io[:1]
    if keep_id:
        if io != ic:
            rec.violation("clone:%s/keep_id-ids-differ" % k, "", case)
    else:
        if set(io) & set(ic):
            which = "root" if io[0] == ic[0] else "descendant"
            rec.violation("clone:%s/id-not-fresh:%s" % (k, which), "shared ids %r" % sorted(set(io) & set(ic))[:2], case)
        if len(set(ic)) != len(ic):
            rec.violation("clone:%s/duplicate-ids-in-copy" % k, "", case)
    return cp


def expected_leaf(obj):
    """Model of the expected export_leaf result."""
    chain = []
    cur = obj if kind(obj) != "prop" else obj.__dict__.get("_parent")
    while cur is not None:
        chain.append(cur)
        cur = cur.__dict__.get("_parent") if kind(cur) != "doc" else None
    chain.reverse()
    if not chain:            # detached Property: the chain is the Property itself
        return model.model_of(obj)
    m = None
    for o in reversed(chain):
        mo = model.model_of(o)
        mo["sections"] = [m] if m is not None else []
        m = mo
    return m


def check_leaf(rec, obj, case):
    rec.monitor("leaf")
    k = kind(obj)
    try:
        leaf = obj.export_leaf()
    except Exception as exc:
        rec.violation("export_leaf:%s/raised-%s" % (k, type(exc).__name__), repr(exc), case)
        return
    exp = expected_leaf(obj)
    got = model.model_of(leaf)
    d = model.diff(exp, got)
    state = "attached" if obj.__dict__.get("_parent") is not None else "detached"
    if d:
        rec.violation("export_leaf:%s:%s/differs:%s" % (k, state, d[0]["field"]), repr(d[:2]), case)
    root = obj
    while root.__dict__.get("_parent") is not None:
        root = root.__dict__.get("_parent")
    shared = set(reach(root)) & set(reach(leaf))
    if shared:
        rec.violation("export_leaf:%s:%s/shares-objects-with-original" % (k, state),
                      "%s" % sorted({reach(root)[i] for i in shared}), case)


def check_values(rec, p, case):
    rec.monitor("values")
    stored = p.__dict__["_values"]
    got = p.values
    if got is stored:
        rec.violation("values-getter/returns-stored-list", "", case)
    for a, b in zip(got, stored):
        if isinstance(a, list) and a is b:
            rec.violation("values-getter/shares-nested-tuple-list", "", case)
            break
    before = model.model_of(p)
    got.append("intruder")
    for v in got:
        if isinstance(v, list) and v:
            v[0] = "edited"
    after = model.model_of(p)
    if model.diff(before, after):
        rec.violation("values-getter/edit-of-returned-list-changes-property", repr(model.diff(before, after)[:1]), case)
        return
    # a list passed in is not retained
    if stored:
        given = [list(v) if isinstance(v, list) else v for v in stored]
        try:
            p.values = given
        except Exception:
            return
        snap = model.model_of(p)
        if p.__dict__["_values"] is given:
            rec.violation("values-setter/retains-given-list", "", case)
        given.append(given[0])
        for v in given:
            if isinstance(v, list) and v:
                v[0] = "edited"
        if model.diff(snap, model.model_of(p)):
            rec.violation("values-setter/edit-of-given-list-changes-property", "", case)


def tree_nodes(root):
    out = [root]
    if kind(root) == "prop":
        return out
    queue = list(list.__iter__(root.__dict__["_sections"]))
    out.extend(list.__iter__(root.__dict__.get("_props", [])))
    while queue:
        s = queue.pop(0)
        out.append(s)
        out.extend(list(list.__iter__(s.__dict__["_props"])))
        queue.extend(list(list.__iter__(s.__dict__["_sections"])))
    return out


def random_edits(rng, root, n):
    """Public-API edits somewhere inside root's tree; refusals are fine."""
    import odml
    done = []
    for _ in range(n):
        ns = tree_nodes(root)
        o = rng.choice(ns)
        k = kind(o)
        act = rng.choice(["rename", "attr", "value", "value", "add", "remove", "card", "reorder", "dtype", "newid"])
        try:
            if act == "rename" and k != "doc":
                o.name = "edited%d" % rng.randrange(1000)
            elif act == "attr":
                if k == "prop":
                    setattr(o, rng.choice(["unit", "definition", "reference", "value_origin", "dependency", "uncertainty"]),
                            rng.choice(["E", 3.5, None]))
                elif k == "sec":
                    setattr(o, rng.choice(["definition", "reference", "type"]), rng.choice(["E", "F"]))
                else:
                    setattr(o, rng.choice(["author", "version"]), "E")
            elif act == "value" and k == "prop":
                how = rng.randrange(5)
                if how == 0 and len(o):
                    o[0] = o.values[-1]
                elif how == 1 and len(o):
                    o.remove(o.values[0])
                elif how == 2:
                    o.values = None
                elif how == 3 and len(o):
                    o.extend(o.values)
                else:
                    o.values = gen._good_value(o.dtype)
            elif act == "add" and k != "prop":
                if rng.random() < 0.5 or k == "doc":
                    odml.Section("added%d" % rng.randrange(10 ** 6), "t", parent=o)
                else:
                    odml.Property("added%d" % rng.randrange(10 ** 6), values=[1], parent=o)
            elif act == "remove" and k != "doc" and o is not root:
                o.parent = None
            elif act == "card":
                if k == "prop":
                    o.val_cardinality = rng.choice([None, (1, 2), 3])
                elif k == "sec":
                    o.sec_cardinality = rng.choice([None, (1, 2), 3])
                    o.prop_cardinality = rng.choice([None, (0, 2), 1])
            elif act == "reorder" and k != "doc" and o.parent is not None:
                o.reorder(0)
            elif act == "dtype" and k == "prop":
                o.dtype = rng.choice(["string", "text"])
            elif act == "newid":
                o.new_id()
            done.append(act)
        except Exception:
            done.append(act + "-refused")
    return done


def cross_calls(rec, a, b, who, case):
    """Containers of one tree are handed the corresponding children of the other tree (deep-equal, but other objects):
    remove() has to refuse them and the other tree keeps its children and their parents."""
    pairs = []

    def walk(x, y):
        if kind(x) in ("doc", "sec") and kind(y) == kind(x):
            for cx, cy in zip(list(x.sections), list(y.sections)):
                pairs.append((x, cy, y))
                walk(cx, cy)
            if kind(x) == "sec":
                for cx, cy in zip(list(x.properties), list(y.properties)):
                    pairs.append((x, cy, y))
    walk(a, b)
    for cont, foreign, owner in pairs[:6]:
        rec.monitor("cross-call")
        try:
            cont.remove(foreign)
        except Exception:
            refused = True
        else:
            refused = False
        listed = any(c is foreign for c in list(owner.sections) + (list(owner.properties) if kind(owner) == "sec" else []))
        if not refused or not listed or foreign.parent is not owner:
            rec.violation("remove-of-the-other-trees-child:%s" % ("accepted" if not refused else "changed-the-other-tree"),
                          "%s.remove(child of the %s): refused=%s still listed there=%s parent kept=%s" % (
                              who, "other tree", refused, listed, foreign.parent is owner), case)
            return


def check_edits(rec, rng, a, b, who, case, peer=None):
    """Edits on a must not change b (peer = the object a is the copy / the original of)."""
    rec.monitor("edit")
    if peer is not None:
        cross_calls(rec, a, peer, who, case)
    before = model.model_of(b)
    acts = random_edits(rng, a, rng.randrange(3, 12))
    d = model.diff(before, model.model_of(b))
    if d:
        rec.violation("edit-of-%s-changes-the-other:%s.%s" % (who, d[0].get("kind"), d[0]["field"]),
                      "after %s: %r" % (acts, d[:2]), case)
    elif peer is not None and kind(a) == kind(peer):
        # equality is a matter of content: once the edits have changed a name, a value or a text attribute of one
        # side, the two are no longer equal - whatever their ids
        rec.monitor("equality-follows-content")
        plain = [x for x in model.diff(model.model_of(a), model.model_of(peer), ignore=("id",))
                 if x["field"] in ("name", "values", "definition", "reference", "unit", "type", "dtype", "author", "version")]
        try:
            if plain and a == peer:
                rec.violation("edited-%s-still-equal-to-the-other" % who, "after %s: %r" % (acts, plain[:1]), case)
        except Exception as exc:
            rec.violation("equality-raised-%s" % type(exc).__name__, repr(exc), case)
    for a_ in acts:
        rec.count("edits", a_)


def run_case(case, ctx):
    rec = ctx.rec
    spec = dec(case["spec"])
    rec.evaluation()
    with warnings.catch_warnings():
        warnings.simplefilter("ignore")
        try:
            doc = gen.build_doc(spec)
        except Exception as exc:
            rec.outcome("build-refused:" + type(exc).__name__)
            return
        ns = nodes(doc)
        idxs = case.get("nodes") or range(len(ns))
        for i in idxs:
            if i >= len(ns):
                continue
            o = ns[i]
            k = kind(o)
            for children in ((True, False) if k != "prop" else (True,)):
                for keep_id in (False, True):
                    c = dict(case, nodes=[i], flags=[children, keep_id])
                    rec.evaluation()
                    nontriv = bool(model.model_of(o).get("sections") or model.model_of(o).get("properties")
                                   or model.model_of(o).get("values"))
                    rec.case(core.h([enc(no_ids(spec)), i, children, keep_id]), nontriv)
                    rec.count("clone-root", "%s children=%s keep_id=%s" % (k, children, keep_id))
                    nviol = sum(v["count"] for v in rec.violations.values())
                    cp = check_clone(rec, o, children, keep_id, c)
                    if cp is not None and nviol == sum(v["count"] for v in rec.violations.values()):
                        rng = ctx.rng("edit", case.get("i", 0), i, children, keep_id)
                        check_edits(rec, rng, cp, o if k == "doc" else doc, "copy", c, peer=o)
                        cp2 = o.clone(keep_id=keep_id) if k == "prop" else o.clone(children=children, keep_id=keep_id)
                        check_edits(rec, rng, o, cp2, "original", c, peer=cp2)
        # fresh document for the leaf / values checks (the edit monitors changed this one)
        doc = gen.build_doc(spec)
        ns = nodes(doc)
        for i in idxs:
            if i >= len(ns):
                continue
            o = ns[i]
            if kind(o) != "doc":
                check_leaf(rec, o, dict(case, nodes=[i], part="leaf"))
            if kind(o) == "prop":
                check_values(rec, o, dict(case, nodes=[i], part="values"))
        if case.get("detached"):
            import odml
            for o in (odml.Property("lonely", values=[["a", "b"]], dtype="2-tuple"), odml.Section("lone", "t")):
                check_leaf(rec, o, dict(case, part="leaf-detached"))
                rec.case(core.h(["detached-leaf", kind(o)]), True)


def check_template(ctx, case, sdir):
    """TemplateHandler.clone_section over a file: URL."""
    import odml
    from odml.templates import TemplateHandler
    rec = ctx.rec
    spec = dec(case["spec"])
    rec.evaluation()
    with warnings.catch_warnings():
        warnings.simplefilter("ignore")
        doc = gen.build_doc(spec)
        # every template file has the same base name; only the directory differs
        os.makedirs(os.path.join(sdir, "tmpl_%d" % case["i"]), exist_ok=True)
        path = os.path.join(sdir, "tmpl_%d" % case["i"], "template.xml")
        try:
            odml.save(doc, path)
        except Exception:
            return
        url = "file://" + path
        h = TemplateHandler()
        for sec in doc.sections:
            for children in (True, False):
                for keep_id in (True, False):
                    try:
                        cp = h.clone_section(url, sec.name, children=children, keep_id=keep_id)
                    except Exception as exc:
                        if sec.name != sec.name.strip():
                            continue
                        rec.violation("clone_section/raised-%s" % type(exc).__name__, repr(exc), case)
                        continue
                    # (the cached original is looked up here by name and position, not through the library's own lookup)
                    cached = [s_ for s_ in list(h[url].sections) if s_.__dict__.get("_name") == sec.name][0]
                    rec.monitor("alias")
                    rec.case(core.h(["template", enc(no_ids(spec)), sec.name, children, keep_id]), True)
                    if set(reach(cached)) & set(reach(cp)):
                        rec.violation("clone_section/shares-objects-with-cached-template", "", case)
                    if cp.parent is not None:
                        rec.violation("clone_section/not-detached", "", case)
                    # the copy is a copy of the Section stored at *this* url: names of the Section the file was written
                    # from (the built document), not only of what the handler holds for the url
                    # (read here directly from the file, without the handler and its cache, by the lenient reader the handler uses)
                    from odml.tools.xmlparser import XMLReader
                    direct = XMLReader(ignore_errors=True, show_warnings=False).from_file(path)
                    same = [s_ for s_ in list(direct.sections) if s_.__dict__.get("_name") == sec.name]
                    if not same:
                        continue
                    built = model.model_of(same[0])
                    got_names = (sorted(c_.name for c_ in cp.sections), sorted(p_.name for p_ in cp.properties))
                    want_names = (sorted(c_["name"] for c_ in built["sections"]), sorted(p_["name"] for p_ in built["properties"])) \
                        if children else ([], [])
                    # (objects the lenient reader replaced by default ones carry a fresh random id as name in every read: not compared)
                    import re as _re
                    _u = _re.compile(r"^[0-9a-f]{8}-[0-9a-f]{4}-[0-9a-f]{4}-[0-9a-f]{4}-[0-9a-f]{12}$")
                    got_names = tuple([n_ for n_ in l_ if not _u.match(str(n_))] for l_ in got_names)
                    want_names = tuple([n_ for n_ in l_ if not _u.match(str(n_))] for l_ in want_names)
                    if cp.name != sec.name or got_names != want_names:
                        rec.violation("clone_section/not-the-section-stored-at-the-url", "%r %r, expected %r %r" % (
                            cp.name, got_names, sec.name, want_names), case)
                    mo, mc = model.model_of(cached), model.model_of(cp)
                    if not children:
                        mo = dict(mo, sections=[], properties=[])
                    if model.diff(mo, mc, ignore=("id",)):
                        rec.violation("clone_section/content-differs", repr(model.diff(mo, mc, ignore=("id",))[:1]), case)
                    io, ic = ids_in_order(cached), ids_in_order(cp)
                    if not children:
                        io = io[:1]
                    if keep_id and io != ic:
                        rec.violation("clone_section/keep_id-ids-differ", "", case)
                    if not keep_id and set(io) & set(ic):
                        rec.violation("clone_section/id-not-fresh", "", case)


def run(ctx):
    from vlib import env
    rec = ctx.rec
    sdir = env.scratch()
    n = ctx.pick(1200, 80000)
    for i in range(n):
        if not ctx.mine(i):
            continue
        rng = ctx.rng("doc", i)
        rng.seed("C11|%s|%d" % (ctx.seed, i))
        spec = gen.gen_doc(rng, max_nodes=rng.choice([3, 8, 15]), hostile=0.2)
        for _, n_ in model.walk(spec):
            if n_["k"] in ("sec", "prop") and rng.random() < 0.06:
                n_["name"] = n_["id"]          # created without a name: the id serves as name (and stays the name of a copy)
        if i % 20 == 0 and len(spec["sections"]) > 1:
            # the type of an earlier top level Section reads like the name of a later one (names address, types do not)
            spec["sections"][0]["type"] = spec["sections"][-1]["name"]
        case = {"spec": enc(spec), "i": i, "detached": i % 50 == 0}
        run_case(case, ctx)
        if i % 10 == 0:
            check_template(ctx, case, sdir)
        if i < 3:
            rec.sample({"nodes": gen.count_nodes(spec), "doc": enc(no_ids(spec)) if gen.count_nodes(spec) < 6 else "(large)"})
        if ctx.time_left() < 0:
            break


def replay(case, ctx):
    run_case(case, ctx)
