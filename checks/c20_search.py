"""C20 -- searches over exported RDF return exactly the matching objects.

Reference model: an evaluator over the *source documents* (no SPARQL): for a set of (kind, attribute, value)
pairs the expected rows are the (Document, Section, Property) tuples related by direct containment in which
every mentioned object carries every requested value (compared as text).  FuzzyFinder.find's output is parsed
back into blocks (query text -> rows of node URIs); expected blocks = every non-empty combination of the pairs
(one value per attribute) that has a hit, most specific first."""
import itertools
import os
import re
import warnings

from vlib import core, gen, model
from vlib.model import enc, dec

PROPERTY = "C20"
LEVEL = "exploration"
SHARDS = {"quick": 16, "thorough": 16}
BUDGET_S = {"thorough": 2400}      # the thorough tier explores sets until this many seconds have passed (sets seen are in the evidence)
RULE = ("seeded sets of 1-3 small documents over tiny value pools (hits are frequent; int / float look-alikes 2 / 2.0, 1 / 1.0), "
        "in a quarter of the sets plus a second revision (same ids, partly other content) of one of them, exported with "
        "rdf_subclassing=False; queries over 1-3 attributes of one kind and queries spanning Document+Section, "
        "Section+Property, Document+Section+Property; values taken from the documents (hits) or absent (misses), "
        "free of , ( ) : and double quote; dictionary and string form; match and fuzzy mode; every attribute name "
        "of the RDF model is used; non-trivial = query with at least one expected hit; distinct = hash of (document "
        "specs without ids, query)")
ASSUMPTIONS = ["values are compared as text (str of the stored value)",
               "a query over Sections only binds the parent of each Section (Document or Section) to ?d; rows are "
               "projected on the kinds the query mentions",
               "Document+Property without Section is not generated (no direct containment)"]
REQUIRED_MONITORS = ["match-blocks", "fuzzy-blocks", "query-builds", "finder-instance-reuse"]

NS = "https://g-node.org/odml-rdf#"
ATTRS = {"Doc": {"author": "hasAuthor", "date": "hasDate", "version": "hasDocVersion", "id": "hasId"},
         "Sec": {"name": "hasName", "type": "hasType", "definition": "hasDefinition", "reference": "hasReference",
                 "id": "hasId"},
         "Prop": {"name": "hasName", "definition": "hasDefinition", "dtype": "hasDtype", "unit": "hasUnit",
                  "uncertainty": "hasUncertainty", "reference": "hasReference", "value_origin": "hasValueOrigin",
                  "id": "hasId"}}
VAR = {"Doc": "d", "Sec": "s", "Prop": "p"}
POOL = {"author": ["Ada", "Bob Ray", u"Zo\u00eb \u00c5ngstr\u00f6m"], "version": ["v1", "2"], "name": ["alpha", "beta", "gamma"],
        "type": ["rec", "stim/noise", "n.s."], "definition": ["def one", "other def", u"Gr\u00f6\u00dfe \u65e5\u672c"], "reference": ["ref1", "ref2"],
        "unit": ["mV", "s", "%"], "value_origin": ["file.dat", "other.bin"], "uncertainty": [0.5, 2, "3.5", 2.0, 1, 1.0],
        "dtype": ["int", "string", "float"]}


def gen_docs(rng):
    import datetime as dt
    docs = []
    for di in range(rng.choice([1, 2, 3])):
        d = {"k": "doc", "id": gen.new_id(rng), "author": rng.choice(POOL["author"] + [None]),
             "version": rng.choice(POOL["version"] + [None]),
             "date": rng.choice([None, dt.date(2020, 1, 2), dt.date(2021, 3, 4)]), "repository": None, "sections": []}

        def sec(name, depth):
            s = {"k": "sec", "id": gen.new_id(rng), "name": name, "type": rng.choice(POOL["type"]),
                 "definition": rng.choice(POOL["definition"] + [None]), "reference": rng.choice(POOL["reference"] + [None]),
                 "repository": None, "link": None, "include": None, "sec_cardinality": None, "prop_cardinality": None,
                 "properties": [], "sections": []}
            for pn in rng.sample(POOL["name"], rng.choice([0, 1, 2])):
                dtype = rng.choice(POOL["dtype"])
                vals = {"int": [rng.choice([1, 2, 3]) for _ in range(rng.choice([1, 2]))],
                        "string": [rng.choice(["x", "y z"]) for _ in range(rng.choice([1, 2]))],
                        "float": [rng.choice([1.5, 2.5, 2.0, 1.0])]}[dtype]
                s["properties"].append({"k": "prop", "id": gen.new_id(rng), "name": pn, "dtype": dtype, "values": vals,
                                        "unit": rng.choice(POOL["unit"] + [None]),
                                        "uncertainty": rng.choice(POOL["uncertainty"] + [None, None]),
                                        "reference": rng.choice(POOL["reference"] + [None]),
                                        "definition": rng.choice(POOL["definition"] + [None]),
                                        "dependency": None, "dependency_value": None,
                                        "value_origin": rng.choice(POOL["value_origin"] + [None]), "val_cardinality": None})
            if depth > 0:
                for sn in rng.sample(POOL["name"], rng.choice([0, 1, 2])):
                    s["sections"].append(sec(sn, depth - 1))
            return s
        for sn in rng.sample(POOL["name"], rng.choice([1, 2, 3])):
            d["sections"].append(sec(sn, rng.choice([0, 1])))
        docs.append(d)
    if rng.random() < 0.25:
        # a second revision of one of the documents in the same export: same ids, partly other content
        import copy
        rev = copy.deepcopy(rng.choice(docs))
        rev["author"] = rng.choice(POOL["author"])
        for _, n in model.walk(rev):
            if n["k"] == "sec":
                if rng.random() < 0.5:
                    n["definition"] = rng.choice(POOL["definition"])
                if n["properties"] and rng.random() < 0.3:
                    n["properties"].pop(rng.randrange(len(n["properties"])))
            elif n["k"] == "prop":
                if rng.random() < 0.5:
                    n["unit"] = rng.choice(POOL["unit"])
                if rng.random() < 0.5:
                    n["definition"] = rng.choice(POOL["definition"])
                if rng.random() < 0.3:
                    n["reference"] = rng.choice(POOL["reference"])
        docs.append(rev)
    return docs


def objects(docs):
    """Lists of (kind, model, parent_model)."""
    out = []
    for d in docs:
        out.append(("Doc", d, None))

        def rec(s, parent):
            out.append(("Sec", s, parent))
            for p in s["properties"]:
                out.append(("Prop", p, s))
            for c in s["sections"]:
                rec(c, s)
        for s in d["sections"]:
            rec(s, d)
    return out


def text(v):
    return str(v)


def carries(m, attr, val):
    if attr == "value":
        return all(any(text(x) == v for x in m["values"]) for v in val)
    cur = m.get(attr)
    return cur is not None and text(cur) == val


def expected_rows(docs, pairs):
    """pairs: list of (kind, attr, value).  Rows projected on the mentioned kinds as tuples of ids."""
    kinds = [k for k in ("Doc", "Sec", "Prop") if any(p[0] == k for p in pairs)]
    objs = objects(docs)
    rows = set()
    # a node is named by the id: objects that share an id (revisions of one document exported together) are one node,
    # which carries what any of them carries
    groups = {}
    for kind, m, parent in objs:
        groups.setdefault((kind, m["id"]), []).append(m)

    def ok(kind, m):
        return all(any(carries(g, a, v) for g in groups[(kind, m["id"])]) for k, a, v in pairs if k == kind)
    for kind, m, parent in objs:
        if kind == "Prop" and "Prop" in kinds:
            if not ok("Prop", m):
                continue
            s = parent
            if "Sec" in kinds and not ok("Sec", s):
                continue
            if "Doc" in kinds:
                # ?d hasSection ?s with ?d a Document: s must be top level in a matching document
                dd = [d for d in docs if any(c is s for c in d["sections"]) and ok("Doc", d)]
                for d in dd:
                    rows.add((d["id"], s["id"], m["id"]))
            elif "Sec" in kinds:
                rows.add((s["id"], m["id"]))
            else:
                rows.add((m["id"],))
        if kind == "Sec" and "Sec" in kinds and "Prop" not in kinds:
            if not ok("Sec", m):
                continue
            if "Doc" in kinds:
                if parent is not None and parent.get("k") == "doc" and ok("Doc", parent):
                    rows.add((parent["id"], m["id"]))
            else:
                rows.add((m["id"],))
        if kind == "Doc" and kinds == ["Doc"]:
            if ok("Doc", m):
                rows.add((m["id"],))
    return kinds, rows


BLOCK_RE = re.compile(r"SELECT \* WHERE \{\n(.*?)\}\n", re.S)
LIT_RE = re.compile(r'^\?(\w+) odml:(\w+) "(.*)" \.$')


def parse_output(out):
    """[(pairs_in_query, vars_in_query, rows)]; rows as tuples of uri fragments in d,s,p order."""
    blocks = []
    pos = 0
    matches = list(BLOCK_RE.finditer(out))
    for i, m in enumerate(matches):
        body = m.group(1)
        tail = out[m.end():matches[i + 1].start() if i + 1 < len(matches) else len(out)]
        pairs = []
        vars_ = []
        bound = {}      # helper variable -> (kind, attr)
        values = []
        KIND = {"d": "Doc", "s": "Sec", "p": "Prop", "v": "Prop"}
        for line in body.splitlines():
            line = line.strip()
            for v in re.findall(r"\?(\w+)", line):
                if v in KIND and v not in vars_:
                    vars_.append(v)
            lm = LIT_RE.match(line)
            if lm:      # ?x odml:hasY "val" .
                var, pred, val = lm.groups()
                kind = KIND[var]
                attr = next((a for a, pr in ATTRS[kind].items() if pr == pred), pred)
                pairs.append((kind, attr, val))
                continue
            bm = re.match(r"^\?(\w) odml:(\w+) \?(\w+) \.$", line)
            if bm and bm.group(1) in KIND and bm.group(3) not in KIND:      # ?x odml:hasY ?x_attr .
                kind = KIND[bm.group(1)]
                attr = next((a for a, pr in ATTRS[kind].items() if pr == bm.group(2)), bm.group(2))
                bound[bm.group(3)] = (kind, attr)
                continue
            fm = re.match(r'^FILTER \(str\(\?(\w+)\) = "(.*)"\) \.$', line)
            if fm and fm.group(1) not in KIND:
                if fm.group(1) in bound:
                    pairs.append(bound[fm.group(1)] + (fm.group(2),))
                elif fm.group(1).startswith("v_val"):
                    values.append(fm.group(2))
                continue
            im = re.match(r'^FILTER \(str\(\?([dsp])\) = ".*?#(.*)"\) \.$', line) or \
                re.match(r"^FILTER \(\?(\w) = <.*#(.*)>\) \.$", line)
            if im:
                pairs.append((KIND[im.group(1)], "id", im.group(2)))
                continue
            vm_ = re.match(r'^\?v rdf:li "(.*)" \.$', line)
            if vm_:
                values.append(vm_.group(1))
        if values:
            pairs.append(("Prop", "value", tuple(values)))
        rows = []
        cur = {}
        for line in tail.splitlines():
            if not line.strip():
                continue
            label, _, uri = line.partition(": ")
            key = {"Document": "d", "Section": "s", "Property": "p", "Bag URI": "v", "Value": "value"}.get(label)
            if key is None:
                continue
            if key in cur:
                rows.append(cur)
                cur = {}
            cur[key] = uri.split("#", 1)[-1]
        if cur:
            rows.append(cur)
        blocks.append((pairs, vars_, rows))
    return blocks


def project(rows, kinds):
    out = set()
    for r in rows:
        out.add(tuple(r.get(VAR[k]) for k in kinds))
    return out


def subsets(pairs):
    """Non-empty combinations with at most one value per (kind, attribute)."""
    out = []
    for n in range(len(pairs), 0, -1):
        for comb in itertools.combinations(pairs, n):
            keys = [(k, a) for k, a, v in comb]
            if len(set(keys)) == len(keys):
                out.append(list(comb))
    return out


def mechanism(docs, pair):
    """Why a requested hit may be missed: classification of one (kind, attr, value) pair."""
    kind, attr, val = pair
    if attr == "id":
        return "id-not-exported-as-hasId"
    if attr == "value":
        return "values-queried-as-rdf:Bag/rdf:li"
    for k, m, _ in objects(docs):
        if k == kind and m.get(attr) is not None and text(m[attr]) == val and not isinstance(m[attr], str):
            return "typed-literal-vs-plain-literal:%s.%s" % (kind, attr)
    return "plain"


def run_query(ctx, docs, graph, qpairs, mode, form, case, shared=None):
    from odml.rdf.fuzzy_finder import FuzzyFinder
    rec = ctx.rec
    rec.evaluation()
    # build parameters
    if mode == "match":
        params = {}
        for k, a, v in qpairs:
            params.setdefault(k, []).append((a, v))
        q_str = " ".join("%s(%s)" % ({"Doc": "doc", "Sec": "sec", "Prop": "prop"}[k],
                                     ", ".join("%s:%s" % (a, "[%s]" % ", ".join(v) if a == "value" else v) for a, v in lst))
                         for k, lst in (reversed(list(params.items())) if case.get("kind_order") == "reversed" else params.items()))
        all_pairs = list(qpairs)
    else:
        attrs, terms = qpairs
        params = {k: list(v) for k, v in attrs.items()}
        params["Search"] = list(terms)
        # (the kinds appear in the order the query lists them, which need not be Document - Section - Property)
        korder = list(attrs)
        if case.get("kind_order") == "reversed":
            korder.reverse()
        q_str = "FIND " + " ".join("%s(%s)" % ({"Doc": "doc", "Sec": "sec", "Prop": "prop"}[k], ", ".join(attrs[k]))
                                   for k in korder) + " HAVING " + ", ".join(terms)
        all_pairs = [(k, a, t) for k in ("Doc", "Sec", "Prop") if k in attrs for a in attrs[k] for t in terms]
    native = {}
    for k_, m_, _par in objects(docs):
        for a_ in ATTRS[k_]:
            v_ = m_.get(a_)
            if v_ is not None and not isinstance(v_, str):
                native[(k_, a_, text(v_))] = v_
    rec.monitor("query-builds")
    try:
        with warnings.catch_warnings():
            warnings.simplefilter("ignore")
            if form == "dict" and mode == "match" and case.get("native_values"):
                # the dictionary way with the values as the documents hold them (numbers, dates), not their text
                params = {k: [(a, native.get((k, a, v), v)) for a, v in lst] for k, lst in params.items()}
            if form == "dict":
                out = FuzzyFinder().find(mode=mode, graph=graph, q_params=params)
            else:
                out = FuzzyFinder().find(mode=mode, graph=graph, q_str=q_str)
    except Exception as exc:
        rec.violation("%s/%s/raised-%s" % (mode, form, type(exc).__name__), "%r for %r" % (exc, q_str), case)
        return
    blocks = parse_output(out)
    if shared is not None:
        # the same search on a finder that has been used before (for the earlier queries of this set, one of which is
        # made to fail): a search does not depend on earlier ones
        rec.monitor("finder-instance-reuse")
        try:
            with warnings.catch_warnings():
                warnings.simplefilter("ignore")
                out2 = shared.find(mode=mode, graph=graph, q_params=params) if form == "dict" else \
                    shared.find(mode=mode, graph=graph, q_str=q_str)
            canon = lambda bl: sorted((tuple(sorted(p)), tuple(sorted(map(tuple, r)))) for p, v, r in bl)
            if canon(parse_output(out2)) != canon(blocks):
                rec.violation("%s/%s/finder-reuse/result-depends-on-earlier-searches" % (mode, form),
                              "query %r: %d blocks on the used finder, %d on a fresh one" % (q_str, len(parse_output(out2)), len(blocks)), case)
        except Exception as exc:
            rec.violation("%s/%s/finder-reuse/raised-%s" % (mode, form, type(exc).__name__), "%r for %r" % (exc, q_str), case)
    rec.monitor("match-blocks" if mode == "match" else "fuzzy-blocks")
    got = {}
    order = []
    for pairs, vars_, rows in blocks:
        key = tuple(sorted(pairs))
        got[key] = (vars_, rows)
        order.append(len(pairs))
    if order != sorted(order, reverse=True):
        rec.violation("%s/blocks-not-most-specific-first" % mode, "sizes %r" % order, case)
    any_hit = False
    expected_keys = set()
    for comb in subsets(all_pairs):
        kinds, rows = expected_rows(docs, comb)
        if kinds == ["Doc", "Prop"]:
            continue
        key = tuple(sorted(comb))
        if rows:
            any_hit = True
            expected_keys.add(key)
            if key not in got:
                mechs = sorted({mechanism(docs, p) for p in comb} - {"plain"})
                kset = sorted({k for k, a, v in comb})
                names = [a for k, a, v in comb]
                if not mechs and len(set(names)) != len(names):
                    mechs = ["same-attribute-name-for-different-kinds"]
                # a combination that trips several known mechanisms is attributed to the first one (fixed
                # order), so that the key space stays one key per mechanism
                mechs = mechs[:1]
                rec.violation("%s/combination-with-hits-missing:%s" % (mode, "|".join(mechs) or "plain:" + "+".join(kset)),
                              "query %r: combination %r has %d expected row(s) but no block" % (q_str, comb, len(rows)), case)
            else:
                grows = project(got[key][1], kinds)
                if grows != rows:
                    miss, extra = rows - grows, grows - rows
                    rec.violation("%s/rows-differ:%s:%s" % (mode, "missing" if miss else "", "extra" if extra else ""),
                                  "query %r: combination %r expected %d rows, got %d" % (q_str, comb, len(rows), len(grows)), case)
        else:
            if key in got and got[key][1]:
                rec.violation("%s/rows-for-combination-without-match" % mode,
                              "query %r: combination %r has no matching object but %d rows" % (q_str, comb, len(got[key][1])), case)
    for key in got:
        if key not in expected_keys and got[key][1] and not any(tuple(sorted(c)) == key for c in subsets(all_pairs)):
            rec.violation("%s/unexpected-block" % mode, "query %r: block for %r" % (q_str, key), case)
    return any_hit


def run_case(case, ctx):
    from odml.tools.rdf_converter import RDFWriter
    rec = ctx.rec
    specs = [dec(s) for s in case["specs"]]
    with warnings.catch_warnings():
        warnings.simplefilter("ignore")
        docs = [gen.build_doc(s) for s in specs]
        if case.get("i", 0) % 3 == 0:
            # the documents of this set come from files, all of the same base name in different directories
            # (day1/metadata.xml, day2/metadata.xml ...): what is searched is what was loaded
            import odml
            from vlib import env
            loaded = []
            try:
                for k_, d_ in enumerate(docs):
                    dd_ = os.path.join(env.scratch(), "c20_%d_%d" % (os.getpid(), case.get("i", 0)), "day%d" % k_)
                    os.makedirs(dd_, exist_ok=True)
                    odml.save(d_, os.path.join(dd_, "metadata.xml"))
                    loaded.append(odml.load(os.path.join(dd_, "metadata.xml"), show_warnings=False))
                docs = loaded
                rec.count("workload", "document-sets-loaded-from-equally-named-files")
            except Exception as exc:
                rec.count("workload", "file-route-refused-%s (documents used as built)" % type(exc).__name__)
        models = [model.model_of(d) for d in docs]
        graph = RDFWriter(docs, rdf_subclassing=False).convert_to_rdf()
    from checks.c01_xml import no_ids
    from odml.rdf.fuzzy_finder import FuzzyFinder
    shared = FuzzyFinder()
    for qi, q in enumerate(case["queries"]):
        if qi % 3 == 1:
            # a search that is refused (value with the quote character, malformed pair) on the shared finder
            for bad in ({"q_params": {"Sec": [("name", 'a"b')]}}, {"q_str": "sec(name:alpha:beta)"}):
                try:
                    with warnings.catch_warnings():
                        warnings.simplefilter("ignore")
                        shared.find(mode="match", graph=graph, **bad)
                    rec.count("refused-searches", "accepted")
                except Exception as exc:
                    rec.count("refused-searches", type(exc).__name__)
        mode, form = q["mode"], q["form"]
        if mode == "match":
            qp = [tuple(p[:2]) + (tuple(p[2]) if isinstance(p[2], list) else p[2],) for p in q["pairs"]]
        else:
            qp = (q["attrs"], q["terms"])
        hit = run_query(ctx, models, graph, qp, mode, form,
                        dict(case, queries=case["queries"][:qi + 1], kind_order="reversed" if qi % 2 else "canonical",
                             native_values=qi % 3 == 0), shared)
        rec.case(core.h([[enc(no_ids(s)) for s in specs], q]), bool(hit))
        rec.count("queries", "%s/%s/%s" % (mode, form, "+".join(sorted({p[0] for p in q["pairs"]})) if mode == "match"
                                          else "+".join(sorted(q["attrs"]))))


SAFE = re.compile(r'^[^,():"\[\]]+$')


def gen_queries(rng, docs, n):
    objs = objects(docs)
    qs = []
    # planted: value queries (one value, two different values in both orders, a value and an attribute) on the first
    # Properties that allow them; sets with two revisions of one document are left to the attribute queries
    if len({d["id"] for d in docs}) == len(docs):
        planted = 0
        for k, m, par in objs:
            if k != "Prop" or planted >= 2:
                continue
            vals = []
            for x in m["values"]:
                if text(x) not in vals and SAFE.match(text(x)):
                    vals.append(text(x))
            if len(vals) >= 2:
                planted += 1
                qs.append({"mode": "match", "form": "dict", "pairs": [["Prop", "value", vals[:2]]]})
                qs.append({"mode": "match", "form": "dict", "pairs": [["Prop", "value", vals[:2][::-1]]]})
                qs.append({"mode": "match", "form": "dict", "pairs": [["Prop", "value", vals[:1]], ["Prop", "name", m["name"]]]})
                qs.append({"mode": "match", "form": "dict", "pairs": [["Prop", "value", [vals[0], "absent-xyz"]]]})
                # the string way: the value list before and after another attribute of the Property
                qs.append({"mode": "match", "form": "str", "pairs": [["Prop", "value", vals[:2]], ["Prop", "name", m["name"]]]})
                qs.append({"mode": "match", "form": "str", "pairs": [["Prop", "name", m["name"]], ["Prop", "value", vals[:2]]]})
                qs.append({"mode": "match", "form": "str", "pairs": [["Prop", "value", vals[:1]], ["Prop", "name", "absent-xyz"]]})
    for _ in range(n):
        combo = rng.choice([["Doc"], ["Sec"], ["Sec"], ["Prop"], ["Prop"], ["Doc", "Sec"], ["Sec", "Prop"], ["Sec", "Prop"],
                            ["Doc", "Sec", "Prop"]])
        mode = rng.choice(["match", "match", "fuzzy"])
        form = rng.choice(["dict", "str"])
        # anchor objects related by containment, so that multi-kind queries can hit
        props = [(m, par) for k, m, par in objs if k == "Prop"]
        secs = [(m, par) for k, m, par in objs if k == "Sec"]
        anchor = {}
        if "Prop" in combo and props:
            p, s = rng.choice(props)
            anchor["Prop"], anchor["Sec"] = p, s
            anchor["Doc"] = next((d for d in docs if any(c is s for c in d["sections"])), rng.choice(docs))
        else:
            s, par = rng.choice(secs)
            anchor["Sec"] = s
            anchor["Doc"] = par if par.get("k") == "doc" else rng.choice(docs)
        if mode == "match":
            pairs = []
            for k in combo:
                cand = [a for a in ATTRS[k] if anchor.get(k) is not None]
                for a in rng.sample(cand, min(len(cand), rng.choice([1, 1, 2, 3]) if len(combo) == 1 else rng.choice([1, 2]))):
                    v = anchor[k].get(a)
                    if rng.random() < 0.25 or v is None:
                        v = "absent-xyz"
                    v = text(v)
                    if SAFE.match(v):
                        pairs.append([k, a, v])
                if k == "Prop" and rng.random() < 0.2 and anchor.get("Prop") and anchor["Prop"]["values"] and \
                        len({d["id"] for d in docs}) == len(docs):
                    vals = [text(x) for x in anchor["Prop"]["values"][:2]]
                    if all(SAFE.match(x) for x in vals) and form == "dict":
                        pairs.append([k, "value", vals])
            if pairs:
                qs.append({"mode": "match", "form": form, "pairs": pairs})
        else:
            attrs = {}
            terms = []
            for k in combo:
                cand = [a for a in ATTRS[k] if a != "id" or rng.random() < 0.3]
                picked = rng.sample(cand, min(len(cand), rng.choice([1, 2])))
                attrs[k] = picked
                for a in picked:
                    v = anchor[k].get(a) if anchor.get(k) else None
                    if v is not None and SAFE.match(text(v)) and text(v) not in terms and len(terms) < 2:
                        terms.append(text(v))
            if rng.random() < 0.3 or not terms:
                terms.append("absent-xyz")
            qs.append({"mode": "fuzzy", "form": form, "attrs": attrs, "terms": terms[:2], "pairs": []})
    return qs


def run(ctx):
    rec = ctx.rec
    for i in range(ctx.pick(32, 3000)):
        if not ctx.mine(i):
            continue
        rng = ctx.rng("set", i)
        rng.seed("C20|%s|%d" % (ctx.seed, i))
        docs = gen_docs(rng)
        case = {"specs": [enc(d) for d in docs], "queries": gen_queries(rng, docs, ctx.pick(8, 10)), "i": i}
        run_case(case, ctx)
        rec.count("workload", "document-sets-run")
        if i < 2:
            rec.sample({"queries": case["queries"][:3]})
        if ctx.time_left() < 0:
            rec.count("workload", "shards-stopped-by-the-time-budget")
            break
    # every attribute name of the RDF model builds a query
    if ctx.shard == 0:
        from odml.rdf.query_creator import QueryCreator
        for k, attrs in ATTRS.items():
            for a in list(attrs) + (["value"] if k == "Prop" else []):
                rec.monitor("query-builds")
                try:
                    QueryCreator({k: [(a, ["1"] if a == "value" else "x")]}).get_query()
                except Exception as exc:
                    rec.violation("query-builds/raised-%s:%s.%s" % (type(exc).__name__, k, a), repr(exc), {"attr": [k, a]})


def replay(case, ctx):
    if "specs" in case:
        run_case(case, ctx)
