"""C05 -- Property values always conform to the Property's dtype, in normal form.
Invariant-at-a-hook on every Property of the universe after every driver-issued call: dtype valid,
every stored value of the Python type of the dtype (no sub-second part, n strings for n-tuples),
refused input raises ValueError and leaves (dtype, values) alone, own values re-assignable, text
round trip of every stored value."""
from checks import struct_common

PROPERTY = "C05"
LEVEL = "exploration"
SHARDS = {"quick": 8, "thorough": 16}
RULE = ("exhaustive deck: every dtype x every value of the per-dtype pool (native, text form, near miss, "
        "None/empty, mixed list, bracketed string, tuple syntax) x every single value operation (constructor, "
        "values=, append, extend, insert, item assignment, remove, strict on/off), every dtype->dtype change, "
        "every dtype x dtype merge; then random value-editing histories of length 1..6 and the structural "
        "histories of C03; non-trivial = history with more than 2 operations; distinct = hash of the op list")
ASSUMPTIONS = ["the repository's own test-suite runs once more under the value predicates (evaluated on everything a test created, after each test)",
               "dtype inputs are canonical names, DType members and the aliases/invalid names listed in "
               "vlib/histrun.DTYPE_INPUTS",
               "text form of a value = str(Property.value_str(i)); back = odml.dtypes.get(text, dtype)"]
REQUIRED_MONITORS = ["value-invariant"]


def run(ctx):
    struct_common.run_struct(ctx, PROPERTY, ctx.pick(3000, 200000), value_heavy=True)


def replay(case, ctx):
    struct_common.replay(case, ctx, PROPERTY)
