"""C14 -- paths address exactly one object and traversals enumerate exactly the tree.

Reference model: independent breadth-first traversal with depth accounting and relation sets computed on
the raw object graph (private fields).  Laws monitored on every generated tree:
  abs-path     s.get_section_by_path(n.get_path()) is n  for every node n and every start s (Document and
               every Section); Properties via get_property_by_path
  rel-path     a.get_section_by_path(a.get_relative_path(b)) is b  for every ordered pair of Sections
  traversal    itersections / iterproperties / itervalues from every start x max_depth in {None, 0..depth+1} x
               yield_self x filter == model sequence (each once, breadth first, depth and filter respected)
  find         find / find_related: every result satisfies name/type and lies in the requested relation, and a
               result is returned iff one exists
"""
import itertools
import warnings

from vlib import core, budget
from vlib.model import kind

PROPERTY = "C14"
LEVEL = "exploration"
SHARDS = {"quick": 8, "thorough": 16}
EXHAUSTIVE = {"quick": False, "thorough": False}
RULE = ("all ordered forests with up to 5 Sections (thorough: 6) -- every shape -- x deterministic name assignments "
        "over the prefix-related alphabet {a, ab, abc, 'a b', 'a.b', b, ba, abcd} (all injective assignments for sibling groups "
        "of size <= 2, rotations for larger groups) x 0-1 Properties per Section; all ordered pairs, all starts, all "
        "depths; plus seeded random trees of 50-300 nodes; plus trees of 6-16 Sections that got their shape through 4-12 public "
        "edits (moves by append / insert / parent=, index assignment with sibling names, renames, reorders, removals, clones; "
        "refused ones included), laws monitored after every edit; non-trivial = tree with >= 2 Sections; distinct = hash of "
        "the (shape, names) encoding")
ASSUMPTIONS = ["names are free of '/' and ':' and differ from '.' and '..'",
               "shapes are enumerated completely up to the bound, name assignments are sampled (see rule)",
               "whether a searching Section counts as its own sibling in find_related is a don't-care",
               "objects belong to a Document (relative paths whose common parent is the root are absolute)"]
REQUIRED_MONITORS = ["abs-path", "rel-path", "traversal", "find"]

NAMES = ["a", "ab", "A", "a b", "Ab", "b", "ba", "abcd", "abc", "a.b", "AB",
         # names that are patterns to a matcher (shell wildcards, regular expressions) but plain names to odML
         "a*", "[ab]", "a?", "a.", "ab[1]"]
TYPES = ["t", "T/sub", "u", "stim/white_noise", "t", u"Stra\u00dfe", u"\u03a3\u03af\u03c3\u03c5\u03c6\u03bf\u03c2/sub"]


def forests(n):
    """All ordered forests with n nodes as nested lists."""
    if n == 0:
        return [[]]
    out = []
    for k in range(1, n + 1):           # size of the first tree
        for first_kids in forests(k - 1):
            for rest in forests(n - k):
                out.append([first_kids] + rest)
    return out


def name_variants(group_size, variant):
    """Deterministic injective name assignment for a sibling group."""
    if group_size <= 2:
        perms = list(itertools.permutations(NAMES[:4], group_size))
    else:
        perms = [tuple(NAMES[(i + r) % len(NAMES)] for i in range(group_size)) for r in range(len(NAMES))]
        perms += [tuple(reversed(p)) for p in perms]
    return perms[variant % len(perms)]


def build(shape, variant, with_props):
    import odml
    doc = odml.Document()
    counter = [0]

    def rec(parent, kids, depth):
        names = name_variants(len(kids), variant + depth + counter[0]) if kids else ()
        for nm, sub in zip(names, kids):
            counter[0] += 1
            s = odml.Section(nm, TYPES[(counter[0] + variant) % len(TYPES)], parent=parent)
            if with_props and (counter[0] + variant) % 2 == 0:
                # every fifth Property holds no value (its value list is listed all the same)
                odml.Property(NAMES[(counter[0]) % len(NAMES)], values=[counter[0]] if counter[0] % 5 else None, parent=s)
                if (counter[0] + variant) % 3 == 0:
                    odml.Property("p:odd" if False else "q", values=["x", "y"], parent=s)
            rec(s, sub, depth + 1)
    rec(doc, shape, 0)
    return doc


# ---- reference model on the raw graph

def raw_secs(o):
    return list(list.__iter__(o.__dict__["_sections"]))


def raw_props(o):
    return list(list.__iter__(o.__dict__.get("_props", [])))


def model_bfs(start, max_depth, yield_self):
    """[(section, level)] breadth first; Document: level 1 = its Sections, never the Document itself."""
    out = []
    if kind(start) == "doc":
        if max_depth is not None and max_depth <= 0:
            return out
        queue = [(s, 1) for s in raw_secs(start)]
    else:
        queue = [(start, 0)]
    while queue:
        s, lvl = queue.pop(0)
        if lvl > 0 or yield_self:
            out.append(s)
        if max_depth is None or lvl < max_depth:
            queue.extend((c, lvl + 1) for c in raw_secs(s))
    return out


def all_sections(doc):
    return model_bfs(doc, None, False)


def ancestors(s):
    out = []
    cur = s.__dict__.get("_parent")
    while cur is not None:
        out.append(cur)
        cur = cur.__dict__.get("_parent")
    return out


def descendants(s):
    out = []
    queue = raw_secs(s)
    while queue:
        c = queue.pop(0)
        out.append(c)
        queue.extend(raw_secs(c))
    return out


def depth_below(start):
    d, level = 0, [start]
    while level:
        nxt = [c for s in level for c in raw_secs(s)]
        if nxt:
            d += 1
        level = nxt
    return d


def ids(seq):
    return [id(x) for x in seq]


def check_tree(doc, rec, case, full=True):
    secs = all_sections(doc)
    starts = [doc] + secs
    # ---- absolute paths
    for n in secs:
        path = n.get_path()
        for s in starts if full else [doc] + secs[:3]:
            rec.monitor("abs-path")
            try:
                got = s.get_section_by_path(path)
            except Exception as exc:
                rec.violation("abs-path/section/raised-%s" % type(exc).__name__,
                              "get_section_by_path(%r) from %r raised %r" % (path, _nm(s), exc), case)
                continue
            if got is not n:
                rec.violation("abs-path/section/wrong-object", "path %r from %r gave %r" % (path, _nm(s), _nm(got)), case)
        for p in raw_props(n):
            ppath = p.get_path()
            for s in (starts if full else [doc, n]):
                rec.monitor("abs-path")
                try:
                    got = s.get_property_by_path(ppath)
                except Exception as exc:
                    rec.violation("abs-path/property/raised-%s" % type(exc).__name__,
                                  "get_property_by_path(%r) from %r raised %r" % (ppath, _nm(s), exc), case)
                    continue
                if got is not p:
                    rec.violation("abs-path/property/wrong-object", "path %r gave %r" % (ppath, got), case)
    # ---- relative paths
    pairs = [(a, b) for a in secs for b in secs] if full else [(a, b) for a in secs[:12] for b in secs[-12:]]
    for a, b in pairs:
        rec.monitor("rel-path")
        rel_kind = _relation(a, b)
        try:
            rel = a.get_relative_path(b)
            got = a.get_section_by_path(rel)
        except Exception as exc:
            rec.violation("rel-path/%s/raised-%s" % (rel_kind, type(exc).__name__),
                          "from %r to %r: %r" % (a.get_path(), b.get_path(), exc), case)
            continue
        if got is not b:
            rec.violation("rel-path/%s/wrong-object" % rel_kind, "from %r to %r via %r gave %r" % (
                a.get_path(), b.get_path(), rel, _nm(got)), case)
    # ---- traversals
    for s in (starts if full else [doc] + secs[:4]):
        dmax = depth_below(s) + (1 if kind(s) == "doc" else 0)
        for md in [None] + list(range(0, dmax + 2)):
            for ys in (False, True):
                rec.monitor("traversal")
                exp = model_bfs(s, md, ys)
                got = list(s.itersections(max_depth=md, yield_self=ys))
                if ids(got) != ids(exp):
                    rec.violation("traversal/itersections/%s" % _seqdiff(exp, got),
                                  "from %r max_depth=%r yield_self=%r: expected %r got %r" % (
                                      _nm(s), md, ys, list(map(_nm, exp)), list(map(_nm, got))), case)
                flt = lambda x: "b" in x.name
                gotf = list(s.itersections(max_depth=md, yield_self=ys, filter_func=flt))
                if ids(gotf) != ids([x for x in exp if flt(x)]):
                    rec.violation("traversal/itersections-filter/differs", "from %r max_depth=%r" % (_nm(s), md), case)
            expp = [p for sec in model_bfs(s, md, True) for p in raw_props(sec)]
            gotp = list(s.iterproperties(max_depth=md))
            if ids(gotp) != ids(expp):
                rec.violation("traversal/iterproperties/%s" % _seqdiff(expp, gotp),
                              "from %r max_depth=%r: expected %r got %r" % (
                                  _nm(s), md, [p.name for p in expp], [p.name for p in gotp]), case)
            pf = lambda p: p.name != "q"
            if ids(list(s.iterproperties(max_depth=md, filter_func=pf))) != ids([p for p in expp if pf(p)]):
                rec.violation("traversal/iterproperties-filter/differs", "from %r max_depth=%r" % (_nm(s), md), case)
            gotv = list(s.itervalues(max_depth=md))
            if gotv != [list(p.__dict__["_values"]) for p in expp]:
                rec.violation("traversal/itervalues/differs", "from %r max_depth=%r" % (_nm(s), md), case)
            vf = lambda v: len(v) > 1
            if list(s.itervalues(max_depth=md, filter_func=vf)) != [list(p.__dict__["_values"]) for p in expp
                                                                   if vf(p.__dict__["_values"])]:
                rec.violation("traversal/itervalues-filter/differs", "from %r max_depth=%r" % (_nm(s), md), case)
    # ---- find / find_related
    keys = [None] + NAMES[:3] + ["AB", "aB"]
    types = [None, "t", "T", "sub", "u", u"Stra\u00dfe", u"STRA\u1e9eE", u"\u03c3\u03af\u03c3\u03c5\u03c6\u03bf\u03c2"]
    for s in (starts if full else [doc] + secs[:4]):
        for key in keys:
            for typ in types:
                if key is None and typ is None:
                    continue
                for find_all in (False, True):
                    for sub in (False, True):
                        rec.monitor("find")
                        cands = [c for c in raw_secs(s) if _match(c, key, typ, sub)]
                        res = s.find(key, typ, find_all, sub) if (find_all + sub) % 2 else \
                            s.find(key=key, type=typ, findAll=find_all, include_subtype=sub)
                        _judge(rec, "find", res, cands, find_all, case, "%r.find(%r,%r,all=%r,sub=%r)" % (_nm(s), key, typ, find_all, sub))
                    if kind(s) != "sec" and False:
                        continue
                    for ch, sib, par, recur in ((True, False, False, True), (True, False, False, False),
                                                (False, True, False, True), (False, False, True, True),
                                                (False, False, True, False), (True, True, True, True)):
                        rec.monitor("find")
                        rel, dontcare = [], []
                        if ch:
                            rel += descendants(s) if recur else raw_secs(s)
                        if kind(s) == "sec":
                            par_obj = s.__dict__.get("_parent")
                            if sib and par_obj is not None:
                                rel += [x for x in raw_secs(par_obj) if x is not s]
                                dontcare = [s]
                            if par:
                                anc = [a for a in ancestors(s) if kind(a) == "sec"]
                                rel += anc if recur else anc[:1]
                        cands = [c for c in rel if _match(c, key, typ, False)]
                        dc = [c for c in dontcare if _match(c, key, typ, False)]
                        if (len(str(key)) + find_all + recur) % 2:
                            # the positional form of the documented signature
                            res = s.find_related(key, typ, ch, sib, par, recur, find_all)
                        else:
                            res = s.find_related(key=key, type=typ, children=ch, siblings=sib, parents=par,
                                                 recursive=recur, findAll=find_all)
                        _judge(rec, "find_related", res, cands, find_all, case,
                               "%r.find_related(%r,%r,ch=%r,sib=%r,par=%r,rec=%r,all=%r)" % (
                                   _nm(s), key, typ, ch, sib, par, recur, find_all), dc)


def _judge(rec, what, res, cands, find_all, case, desc, dontcare=()):
    got = res if isinstance(res, list) else ([] if res is None else [res])
    allowed = ids(cands) + ids(dontcare)
    bad = [g for g in got if id(g) not in allowed]
    if bad:
        rec.violation("%s/returns-non-matching-object" % what, "%s returned %r" % (desc, list(map(_nm, bad))), case)
    if cands and not got:
        rec.violation("%s/misses-existing-match" % what, "%s returned nothing; matches %r" % (desc, list(map(_nm, cands))), case)
    if find_all and res is not None and not isinstance(res, list):
        rec.violation("%s/findAll-not-a-list" % what, desc, case)
    if find_all and isinstance(res, list) and not dontcare:
        missing = [c for c in cands if id(c) not in ids(got)]
        if missing:
            rec.violation("%s/findAll-incomplete" % what, "%s missed %r" % (desc, list(map(_nm, missing))), case)


def _match(c, key, typ, include_subtype):
    d = c.__dict__
    if key is not None and d.get("_name") != key:
        return False
    if typ is not None:
        t = (d.get("type") or "").lower()
        if t == typ.lower():
            return True
        if include_subtype and typ.lower() in t.split("/")[:-1]:
            return True
        return False
    return True


def _relation(a, b):
    if a is b:
        return "self"
    if b is a.__dict__.get("_parent"):
        return "to-parent"
    if b in ancestors(a):
        return "to-ancestor"
    if a in ancestors(b):
        return "to-descendant"
    if a.__dict__.get("_parent") is b.__dict__.get("_parent"):
        return "to-sibling"
    return "to-cousin"


def _seqdiff(exp, got):
    if sorted(ids(exp)) == sorted(ids(got)):
        return "order"
    if len(set(ids(got))) != len(got):
        return "duplicates"
    if set(ids(got)) < set(ids(exp)):
        return "misses-objects"
    if set(ids(got)) > set(ids(exp)):
        return "extra-objects"
    return "differs"


def _nm(o):
    if o is None:
        return None
    if kind(o) == "doc":
        return "<doc>"
    try:
        return o.get_path()
    except Exception:
        return repr(o)


def run_case(case, ctx):
    rec = ctx.rec
    rec.evaluation()
    with warnings.catch_warnings():
        warnings.simplefilter("ignore")
        if case["kind"] == "small":
            doc = build(case["shape"], case["variant"], case["props"])
            rec.case(core.h(case), _count(case["shape"]) >= 2)
            ok, res, calls = budget.run(lambda: check_tree(doc, rec, case, True), 50000000)
        elif case["kind"] == "loaded":
            doc = loaded_tree(ctx, case)
            rec.case(core.h(case), True)
            if doc is None:
                rec.count("loaded", "not-loadable (not judged)")
                return
            try:
                ok, res, calls = budget.run(lambda: check_tree(doc, rec, case, False), 200000000)
            except Exception as exc:
                import traceback
                last = traceback.extract_tb(exc.__traceback__)[-1]
                if "/odml/" not in last.filename.replace("\\", "/"):
                    raise
                # a path / traversal function of the library raised on a document the reader handed out
                rec.violation("loaded-tree/query-raised-%s@%s" % (type(exc).__name__, last.name), repr(exc)[:200], case)
                return
        elif case["kind"] == "edited":
            rec.case(core.h(case), True)
            ok, res, calls = budget.run(lambda: edited_tree(ctx, rec, case), 400000000)
        else:
            doc = random_tree(ctx, case["i"], case["n"])
            rec.case(core.h(case), True)
            ok, res, calls = budget.run(lambda: check_tree(doc, rec, case, False), 200000000)
        if not ok:
            rec.violation("query-does-not-terminate", "step budget exceeded on %r" % (case,), case)


def _count(shape):
    return sum(1 + _count(k) for k in shape)


def random_tree(ctx, i, n, seed=None):
    import odml
    import random
    rng = random.Random("C14|%s|%d" % (ctx.seed if seed is None else seed, i))
    doc = odml.Document()
    secs = [doc]
    for k in range(n):
        par = rng.choice(secs[-20:] if rng.random() < 0.5 else secs)
        names = {s.name for s in par.sections}
        cand = [x for x in NAMES + ["n%d" % k] if x not in names]
        s = odml.Section(rng.choice(cand[:3] + cand[-1:]), rng.choice(TYPES), parent=par)
        if rng.random() < 0.5:
            odml.Property(rng.choice(NAMES), values=[k], parent=s)
        secs.append(s)
    return doc


EDIT_OPS = ["move-append", "move-insert", "move-parent", "prop-move-append", "prop-move-insert", "sec-setitem-new",
            "sec-setitem-moved", "prop-setitem-new", "rename", "prop-rename", "reorder", "prop-reorder", "remove-readd",
            "clone-append", "extend", "create"]


def loaded_tree(ctx, case):
    """A tree that comes out of a hand-written YAML file in which some names are scalars YAML does not read as text
    (a date, numbers, a boolean): whatever the reader makes of them, the loaded document's paths and traversals agree."""
    import datetime as _dt
    import yaml
    from models import emit
    from vlib import model
    from odml.tools.odmlparser import ODMLReader
    src = random_tree(ctx, case["i"], case["n"], seed="loaded")
    m = model.model_of(src)
    natives = [_dt.date(2020, 1, 1), 12, 1.5, True, _dt.date(1999, 12, 31), 0]
    k = [0]

    def walk(d):
        if isinstance(d, dict):
            if "name" in d and ("type" in d or "value" in d):
                k[0] += 1
                if k[0] % 3 == 0:
                    d["name"] = natives[(k[0] // 3) % len(natives)]
            for v in d.values():
                walk(v)
        elif isinstance(d, list):
            for v in d:
                walk(v)
    d = emit.dict_from_model(m)
    walk(d)
    try:
        return ODMLReader("YAML", show_warnings=False).from_string(yaml.safe_dump(d))
    except Exception:
        return None


def edited_tree(ctx, rec, case):
    """A tree that got its shape through a history of public edits (moves between parents by append / insert /
    parent=, index assignment, renames, reorders, removals, clones), refused ones included; the path and traversal laws
    are monitored after every step.  Names stay inside the alphabet of the assumptions."""
    import odml
    import random
    seed = case.get("seed", ctx.seed)
    rng = random.Random("C14e|%s|%d" % (seed, case["i"]))
    doc = random_tree(ctx, 100000 + case["i"], case["n"], seed)
    case["trace"] = []
    for step in range(case["ops"]):
        secs = all_sections(doc)
        props = [p for s in secs for p in raw_props(s)]
        op = rng.choice(EDIT_OPS)
        x = rng.choice(secs)
        t = rng.choice([doc] + secs)
        ts = rng.choice(secs)
        if "setitem" in op:
            t = rng.choice([o for o in [doc] + secs if raw_secs(o)])
            ts = rng.choice([o for o in secs if raw_props(o)] or secs)
        pos = rng.choice([0, 0, 1, -1, 2])
        nm = rng.choice(NAMES)
        note = op
        try:
            if op == "move-append":
                t.append(x)
            elif op == "move-insert":
                t.insert(pos, x)
            elif op == "move-parent":
                x.parent = t
            elif op in ("prop-move-append", "prop-move-insert") and props:
                p = rng.choice(props)
                if op == "prop-move-append":
                    ts.append(p)
                else:
                    ts.insert(pos, p)
            elif op == "sec-setitem-new" and raw_secs(t):
                kids = raw_secs(t)
                # the new name is, more often than not, the one of a sibling (first, last or any)
                nm = rng.choice([kids[0].name, kids[-1].name, rng.choice(kids).name, nm])
                k = rng.choice([0, len(kids) - 1, -1, rng.randrange(len(kids))])
                t.sections[k] = odml.Section(nm, rng.choice(TYPES))
            elif op == "sec-setitem-moved" and raw_secs(t):
                kids = raw_secs(t)
                t.sections[rng.randrange(len(kids))] = x
            elif op == "prop-setitem-new" and raw_props(ts):
                kids = raw_props(ts)
                nm = rng.choice([kids[0].name, kids[-1].name, nm])
                ts.properties[rng.choice([0, len(kids) - 1, -1])] = odml.Property(nm, values=[step])
            elif op == "rename":
                sib = rng.choice(raw_secs(x.parent)).name
                x.name = rng.choice([nm, nm, sib + " ", " " + sib])
            elif op == "prop-rename" and props:
                p = rng.choice(props)
                sib = rng.choice(raw_props(p.parent)).name
                p.name = rng.choice([nm, nm, sib + " ", " " + sib])
            elif op == "reorder":
                x.reorder(rng.choice([0, -1, 1]))
            elif op == "prop-reorder" and props:
                rng.choice(props).reorder(rng.choice([0, -1, 1]))
            elif op == "remove-readd":
                par = x.parent
                par.remove(x)
                (t if rng.random() < 0.5 else par).append(x)
            elif op == "clone-append":
                t.append(x.clone())
            elif op == "extend":
                t.extend([odml.Section(nm, "t"), odml.Section(rng.choice(NAMES), "u")])
            elif op == "create":
                t.create_section(nm, "t")
            else:
                note = op + ":skipped"
        except Exception as exc:
            note = op + ":refused-" + type(exc).__name__
        case["trace"].append(note)
        rec.count("edit-ops", note)
        if not all_sections(doc):
            break
        before = sum(v["count"] for v in rec.violations.values())
        check_tree(doc, rec, dict(case, failing_step=step, failing_op=note), False)
        if sum(v["count"] for v in rec.violations.values()) != before:
            break           # later steps would only repeat the consequences


def run(ctx):
    rec = ctx.rec
    nmax = ctx.pick(5, 7)
    i = 0
    shapes_total = 0
    for n in range(1, nmax + 1):
        fs = forests(n)
        shapes_total += len(fs)
        nvar = ctx.pick(6, 12 if n <= 6 else 3)
        for shape in fs:
            for variant in range(nvar):
                for props in (False, True):
                    i += 1
                    if not ctx.mine(i):
                        continue
                    case = {"kind": "small", "shape": shape, "variant": variant, "props": props}
                    run_case(case, ctx)
                    if i % 400 == 1:
                        rec.sample(case)
    if ctx.shard == 0:
        rec.extra["shapes_enumerated"] = shapes_total
        rec.extra["max_sections_in_enumeration"] = nmax
    for j in range(ctx.pick(16, 1200)):
        if not ctx.mine(j):
            continue
        case = {"kind": "random", "i": j, "n": [50, 120, 300][j % 3]}
        run_case(case, ctx)
    for j in range(ctx.pick(48, 1500)):
        if not ctx.mine(j):
            continue
        run_case({"kind": "loaded", "i": j, "n": [6, 12, 20][j % 3]}, ctx)
    for j in range(ctx.pick(160, 6000)):
        if not ctx.mine(j):
            continue
        case = {"kind": "edited", "seed": ctx.seed, "i": j, "n": [6, 10, 16][j % 3], "ops": [4, 8, 12][(j // 3) % 3]}
        run_case(case, ctx)


def replay(case, ctx):
    run_case(case, ctx)
