"""C18 -- background loading of terminologies / templates is transparent in every schedule.

Schedule exploration of the real code under a controlled scheduler (vlib/sched.py): every access to the
shared loaded / loading tables, Thread.start, Thread.join and thread exit is a scheduling point at which
exactly one thread continues; schedules are enumerated with iterative preemption bounding and replayed from
their decision lists.  Oracle per execution:
  transparent   the caller-visible outcome of every call equals the sequential reference (same script without
                deferred calls, no scheduler); later loads return the same cached object until refresh
  no-raise      no call raises in the caller, no exception escapes a loader thread
  no-deadlock   structural: never 'no runnable thread while some are blocked'
  cache-files   a fetch that fails creates / rewrites no cache file (listing + audit events of odml.cache)
"""
import hashlib
import os
import random
import shutil
import time
import warnings

from vlib import core, model, sched, fsmon
from vlib.model import enc

PROPERTY = "C18"
LEVEL = "exploration"
SHARDS = {"quick": 8, "thorough": 16}
RULE = ("include graphs {single, chain A->B, diamond A->{B,C}->D, A->missing leaf, A->unparsable leaf} behind file: URLs "
        "x caller scripts {load; deferred_load+load; deferred_load(A)+deferred_load(B)+load(B)+load(A); Section.include "
        "on an attached Section; Section.repository + get_terminology_equivalent; refresh; TemplateHandler load / "
        "deferred_load} x cache {empty, warm, stale (older than the cache age, content outdated), warm-outdated (fresh but outdated content)}; schedules: all with <= 1 preemption (quick) / <= 2 (thorough) at "
        "table-access granularity, plus seeded random schedules; non-trivial = execution with at least one loader "
        "thread; distinct = hash of the observed interleaving (sequence of thread:scheduling-point)")
ASSUMPTIONS = ["scheduling points = accesses to the loaded / loading tables, Thread.start, Thread.join, thread exit "
               "(the granularity named by the quantifier); between two points exactly one thread runs",
               "the sequential reference is the same library code run without deferred calls",
               "include graphs are acyclic; resources are file: URLs in the private scratch directory",
               "exhaustive up to the reported preemption bound only"]
REQUIRED_MONITORS = ["transparent", "no-raise", "no-deadlock", "cache-files", "resolved-structure"]


# ---------------------------------------------------------------------------------------------
# resources

def res_xml(name, includes, broken=False):
    if broken == "sectionless":
        # parses fine, but holds no Section an include without a path could take
        return '<?xml version="1.0" encoding="UTF-8"?>\n<odML version="1.1"><author>%s</author></odML>' % name
    if broken:
        return "<odML version=\"1.1\"><section><name>x</name></odML"
    # the XML declaration is spelled the way one or another XML writer spells it (or is left out), by resource name
    decl = ['<?xml version="1.0" encoding="UTF-8"?>', "<?xml version='1.0' encoding='utf-8'?>", None,
            '<?xml version="1.0" encoding="UTF-8" standalone="yes"?>'][ord(name[0]) % 4]
    parts = ([decl] if decl else []) + ['<odML version="1.1">', "<author>%s</author>" % name]
    inner = ""
    for i, inc_ in enumerate(includes):
        if len(inc_) > 2 and inc_[2] == "inner":
            # an include that sits on a sub-Section of <name>_main, i.e. inside what other resources include from here
            # (no children of its own: what becomes of them when the holder is itself copied by an outer include is the
            # business of C12, whose quantifier excludes nested references)
            inner += ("<section><name>%s_in%d</name><type>holder</type><include>%s</include></section>" % (
                name, i, inc_[0] + ("#" + inc_[1] if inc_[1] else "")))
    parts.append("<section><name>%s_main</name><type>%s_type</type><definition>def of %s</definition>"
                 "<property><name>%s_p</name><value>[1,2]</value><type>int</type></property>"
                 "<section><name>%s_sub</name><type>Sub/Detail</type><property><name>deep</name><value>x</value><type>string</type>"
                 "</property></section>%s</section>" % ((name,) * 5 + (inner,)))
    for i, inc_ in enumerate(includes):
        if len(inc_) > 2:
            continue
        url, path = inc_[0], inc_[1]
        inc = url + ("#" + path if path else "")
        parts.append("<section><name>%s_inc%d</name><type>holder</type><include>%s</include>"
                     "<property><name>own</name><value>o</value><type>string</type></property></section>" % (name, i, inc))
    parts.append("</odML>")
    return "\n".join(parts)


GRAPHS = {
    "single": {"A": []},
    "chain": {"A": [("B", "/B_main")], "B": []},
    "diamond": {"A": [("B", "/B_main"), ("C", None)], "B": [("D", "/D_main/D_sub")], "C": [("D", "/D_main")], "D": []},
    "long-chain": {"A": [("B", "/B_main")], "B": [("C", "/C_main", "inner")], "C": [("D", "/D_main", "inner")],
                   "D": [("E", "/E_main", "inner")], "E": [("F", "/F_main", "inner")], "F": [("G", "/G_main", "inner")], "G": []},
    "nested": {"A": [("B", "/B_main")], "B": [("C", "/C_main", "inner")], "C": []},
    "nested-whole": {"A": [("B", "/B_main")], "B": [("C", None, "inner"), ("C", "/C_main/C_sub", "inner")], "C": []},
    "missing-leaf": {"A": [("M", "/M_main")]},
    "missing-then-good": {"A": [("M", "/M_main"), ("B", "/B_main")], "B": []},
    "good-then-missing": {"A": [("B", "/B_main"), ("M", "/M_main")], "B": []},
    "unparsable-then-good": {"A": [("U", "/x"), ("B", "/B_main")], "U": "broken", "B": []},
    "unparsable-leaf": {"A": [("U", "/x")], "U": "broken"},
    "sectionless-leaf": {"A": [("E", None)], "E": "sectionless"},
    "sectionless-then-good": {"A": [("E", None), ("B", "/B_main")], "E": "sectionless", "B": []},
    "missing-root": {},
    "vanished-root": {"A": []},      # the resource is removed after the cache was filled
}


def expected_names(gname, n, _seen=()):
    """Independent of the library: the Section / Property names of resource n after all its includes were resolved,
    as nested dicts {section name: (set of property names, {sub-sections})}, derived from the graph table alone."""
    incs = GRAPHS[gname].get(n)
    if incs is None or incs in ("broken", "sectionless") or n in _seen:
        return None

    def target(t, path):
        sub = expected_names(gname, t, _seen + (n,))
        if sub is None:
            return None
        steps = [x for x in (path or "/%s_main" % t).split("/") if x]
        cur = (set(), sub)
        for st in steps:
            if st not in cur[1]:
                return None
            cur = cur[1][st]
        return cur

    def holder(inc_):
        tgt = target(inc_[0], inc_[1])
        if tgt is None:
            return None
        props, secs = set(tgt[0]) | ({"own"} if len(inc_) == 2 else set()), dict(tgt[1])
        return (props, secs)
    main_secs = {"%s_sub" % n: ({"deep"}, {})}
    tops = {}
    for i, inc_ in enumerate(incs):
        h = holder(inc_)
        if h is None:
            return None
        if len(inc_) > 2:
            main_secs["%s_in%d" % (n, i)] = h
        else:
            tops["%s_inc%d" % (n, i)] = h
    out = {"%s_main" % n: ({"%s_p" % n}, main_secs)}
    out.update(tops)
    return out


def names_of_model(m):
    return {c["name"]: ({p["name"] for p in c["properties"]}, names_of_model(c)) for c in m["sections"]}


def build_graph(gname, sdir, tag):
    d = os.path.join(sdir, "c18res", "%s_%s" % (gname, tag))
    shutil.rmtree(d, ignore_errors=True)
    os.makedirs(d)
    urls = {n: "file://" + os.path.join(d, n + ".xml") for n in list(GRAPHS[gname]) + ["M", "A"]}
    for n, incs in GRAPHS[gname].items():
        with open(os.path.join(d, n + ".xml"), "w") as f:
            if incs in ("broken", "sectionless"):
                f.write(res_xml(n, [], broken=True if incs == "broken" else incs))
            else:
                f.write(res_xml(n, [(urls[i[0]],) + tuple(i[1:]) for i in incs]))
    return urls


def rewrite_graph(gname, urls):
    for n, incs in GRAPHS[gname].items():
        with open(urls[n][7:], "w") as f:
            if incs in ("broken", "sectionless"):
                f.write(res_xml(n, [], broken=True if incs == "broken" else incs))
            else:
                f.write(res_xml(n, [(urls[i[0]],) + tuple(i[1:]) for i in incs]))


SCRIPTS = {
    "load": [("load", "A")],
    "deferred+load": [("deferred", "A"), ("load", "A"), ("load", "A")],
    "deferred-both": [("deferred", "A"), ("deferred", "B"), ("load", "B"), ("load", "A"), ("load", "B")],
    "deferred-leaf-first": [("deferred", "B"), ("deferred", "A"), ("load", "A")],
    "include": [("include", "A", "/A_main")],
    "include-after-deferred": [("deferred", "A"), ("include", "A", "/A_main")],
    "include-edit-load-include": [("include", "A", "/A_main"), ("load", "A"), ("include", "A", "/A_main")],
    "repository": [("repository", "A")],
    "doc-repository": [("docrepository", "A"), ("load", "A")],
    "refresh": [("deferred", "A"), ("load", "A"), ("refresh", "A"), ("load", "A")],
    "deferred-root-load-leaf": [("deferred", "A"), ("load", "B"), ("load", "B"), ("load", "A"), ("load", "B")],
    "refresh-after-background-load": [("deferred", "A"), ("refresh", "A"), ("load", "A"), ("load", "A")],
    "refresh-after-repository": [("repository", "A"), ("refresh", "A"), ("load", "A")],
    "template-load": [("tdeferred", "A"), ("tload", "A"), ("tload", "A")],
    "template-deferred-twice": [("tdeferred", "A"), ("tdeferred", "A"), ("tload", "A")],
    "load-twice": [("load", "A"), ("load", "A"), ("load", "A")],
    "template-load-twice": [("tload", "A"), ("tload", "A"), ("tload", "A")],
    "template-new-handler": [("tdeferred", "A"), ("tload", "A"), ("tnew", "A"), ("tload", "A"), ("tload", "A")],
    "template-clear": [("tdeferred", "A"), ("tload", "A"), ("tclear", "A"), ("tload", "A"), ("tload", "A")],
}


def cache_dir():
    import tempfile
    return os.path.join(tempfile.gettempdir(), "odml.cache")


def cache_name(url):
    return ".".join([hashlib.md5(url.encode()).hexdigest(), os.path.basename(url)])


def reset_tables():
    from odml import terminology, templates
    dict.clear(terminology.terminologies)
    dict.clear(terminology.Terminologies.loading)
    dict.clear(templates.TemplateHandler.loading)
    terminology.terminologies.reload_cache = False


def install():
    from odml import terminology, templates
    sched.install()
    sched.instrument_table_class(terminology.Terminologies, "loaded")
    sched.instrument_table_class(templates.TemplateHandler, "tloaded")
    if not isinstance(terminology.Terminologies.loading, sched.PointDict):
        terminology.Terminologies.loading = sched.PointDict()
        t = sched.PointDict()
        t._label = "tloading"
        templates.TemplateHandler.loading = t
    # the tables' lock (if the tree has one) becomes a lock the scheduler understands
    for cls, label in ((terminology.Terminologies, "lock"), (templates.TemplateHandler, "tlock")):
        lk = getattr(cls, "_lock", None)
        if lk is not None and not isinstance(lk, sched.CoopRLock):
            cls._lock = sched.CoopRLock(label)


def run_script(script, urls, use_deferred=True):
    """Executes the caller script; returns list of outcomes [(kind, payload)] and the objects returned."""
    import odml
    from odml import terminology, templates
    outcomes = []
    objs = []
    th = templates.TemplateHandler()
    for step in script:
        op = step[0]
        url = urls.get(step[1], urls["M"])
        try:
            if op == "load":
                r = terminology.load(url)
                objs.append((op, url, r))
                outcomes.append(("doc", model.model_of(r)) if r is not None else ("none", None))
            elif op == "deferred":
                if use_deferred:
                    r = terminology.deferred_load(url)
                    outcomes.append(("none", None) if r is None else ("value", repr(r)))
                else:
                    outcomes.append(("none", None))
            elif op == "include":
                doc = odml.Document()
                s = odml.Section("host", "t", parent=doc)
                odml.Property("own", values=["o"], parent=s)
                s.include = url + "#" + step[2]
                outcomes.append(("doc", model.model_of(doc)))
                # the consumer goes on to edit its copies in place; the cached resource is not its business
                for p_ in list(doc.iterproperties()):
                    try:
                        p_.append(p_.values[0] if p_.values else "edited")
                        p_.unit = "edited"
                    except Exception:
                        pass
            elif op == "repository":
                doc = odml.Document()
                s = odml.Section("host", "A_type", parent=doc)
                s.repository = url if use_deferred else None
                if not use_deferred:
                    s._repository = url
                r = s.get_terminology_equivalent()
                outcomes.append(("doc", model.model_of(r)) if r is not None else ("none", None))
            elif op == "docrepository":
                # the Document-level variant: the setter starts a background load, the query must wait for it
                doc = odml.Document()
                if use_deferred:
                    doc.repository = url
                else:
                    doc._repository = url
                r = doc.get_terminology_equivalent()
                outcomes.append(("doc", model.model_of(r)) if r is not None else ("none", None))
            elif op == "modify":
                # the resource changes on disk (same structure, other content)
                path = url[7:]
                if os.path.exists(path):
                    with open(path) as f:
                        text = f.read()
                    with open(path, "w") as f:
                        f.write(text.replace("<author>", "<author>changed ", 1).replace("def of", "new def of"))
                outcomes.append(("none", None))
            elif op == "refresh":
                r = terminology.refresh(url)
                outcomes.append(("none", None))
                objs.append((op, url, None))
            elif op == "tload":
                r = th.load(url)
                objs.append((op, url, r))
                outcomes.append(("doc", model.model_of(r)) if r is not None else ("none", None))
            elif op == "tdeferred":
                if use_deferred:
                    th.deferred_load(url)
                outcomes.append(("none", None))
            elif op in ("tnew", "tclear"):
                # another handler instance (the loader-thread table is shared by all of them) / an emptied one
                if op == "tnew":
                    th = templates.TemplateHandler()
                else:
                    th.clear()
                outcomes.append(("none", None))
                objs.append(("treset", url, None))
        except sched.DeadlockAbort:
            outcomes.append(("deadlock", None))
            break
        except Exception as exc:
            outcomes.append(("raised", "%s: %s" % (type(exc).__name__, str(exc)[:80])))
    return outcomes, objs


def same_outcome(a, b):
    if a[0] != b[0]:
        return False
    if a[0] == "doc":
        return not model.diff(a[1], b[1], ignore=("id",))
    if a[0] == "raised":
        return a[1].split(":")[0] == b[1].split(":")[0]
    return True


def prepare_cache(state, script, urls, graph=None):
    shutil.rmtree(cache_dir(), ignore_errors=True)
    if graph == "vanished-root":
        rewrite_graph(graph, urls)
    try:
        _prepare_cache(state, script, urls)
    finally:
        if graph == "vanished-root" and os.path.exists(urls["A"][7:]):
            os.remove(urls["A"][7:])


def _prepare_cache(state, script, urls):
    if state in ("warm", "stale", "warm-outdated"):
        reset_tables()
        with warnings.catch_warnings():
            warnings.simplefilter("ignore")
            run_script([s for s in script if s[0] in ("load", "tload", "include", "repository")], urls, use_deferred=False)
        if state in ("stale", "warm-outdated") and os.path.isdir(cache_dir()):
            # the cache holds an older version of every resource; 'stale' files are also older than the
            # cache age (they must be fetched again), 'warm-outdated' ones are fresh (they may be served
            # until a refresh)
            old = time.time() - 25 * 3600          # only just outdated (the cache age is one day)
            for f in os.listdir(cache_dir()):
                fp = os.path.join(cache_dir(), f)
                with open(fp) as fh:
                    text = fh.read()
                with open(fp, "w") as fh:
                    fh.write(text.replace("<author>", "<author>outdated ", 1).replace("def of", "old def of"))
                if state == "stale":
                    os.utime(fp, (old, old))
    reset_tables()


def execute(scn, urls, decisions, rng=None, p_switch=0.0):
    """One execution of a scenario under the scheduler."""
    prepare_cache(scn["cache"], SCRIPTS[scn["script"]], urls, scn["graph"])
    before = fsmon.tree_state(cache_dir()) if os.path.isdir(cache_dir()) else {}
    s = sched.Scheduler(decisions, rng)
    s.p_switch = p_switch
    sched.activate(s)
    try:
        with warnings.catch_warnings():
            warnings.simplefilter("ignore")
            with fsmon.Recording() as fs:
                try:
                    outcomes, objs = run_script(SCRIPTS[scn["script"]], urls)
                except sched.DeadlockAbort:
                    outcomes, objs = [("deadlock", None)], []
                s.finish()
    finally:
        s.active = False
        sched.deactivate()
    after = fsmon.tree_state(cache_dir()) if os.path.isdir(cache_dir()) else {}
    return s, outcomes, objs, before, after, fs


def judge(rec, scn, urls, ref, s, outcomes, objs, before, after, fs, decisions):
    case = {"scenario": scn, "decisions": {str(k): v for k, v in decisions.items()}}
    sk = "%s/%s" % (scn["graph"], scn["script"])
    rec.monitor("no-deadlock")
    if s.deadlock or any(o[0] == "deadlock" for o in outcomes):
        rec.violation("deadlock:%s" % sk, "no runnable thread; trace tail %r" % s.trace[-8:], case)
        return
    # what a load / include hands out holds the values the resource files hold (res_xml), whatever earlier consumers
    # did to their copies
    rec.monitor("resource-values-pristine")
    for i, o in enumerate(outcomes):
        if o[0] == "doc" and o[1]:
            for _, n_ in model.walk(o[1]):
                if n_["k"] == "prop":
                    want = [1, 2] if n_["name"].endswith("_p") else {"deep": ["x"], "own": ["o"]}.get(n_["name"])
                    if want is not None and (n_["values"] != want or n_.get("unit") is not None):
                        rec.violation("handed-out-values-altered-by-an-earlier-consumer:%s" % n_["name"].split("_")[-1],
                                      "%s step %d: %s holds %r unit %r" % (sk, i, n_["name"], n_["values"], n_.get("unit")), case)
                        break
    rec.monitor("no-raise")
    for exc in s.errors:
        rec.violation("loader-thread-raised:%s:%s" % (type(exc).__name__, _exc_class(exc)),
                      "%s: %r; trace tail %r" % (sk, exc, s.trace[-8:]), case)
    for i, o in enumerate(outcomes):
        if o[0] == "raised":
            step = SCRIPTS[scn["script"]][i][0]
            seq = " (also sequentially)" if i < len(ref) and ref[i][0] == "raised" else ""
            if step == "include" and o[1].startswith("ValueError") and seq:
                # assigning an include that cannot be resolved is refused (C06); what C18 demands is that
                # the schedule does not change this outcome
                rec.count("refused-includes", scn["graph"])
                continue
            rec.violation("call-raised:%s:%s:%s" % (step, o[1].split(":")[0], _msg_class(o[1], scn)),
                          "%s step %d raised %s%s; trace tail %r" % (sk, i, o[1], seq, s.trace[-8:]), case)
    rec.monitor("transparent")
    if len(outcomes) == len(ref):
        for i, (o, r) in enumerate(zip(outcomes, ref)):
            if o[0] == "raised" and r[0] == "raised":
                continue
            if o[0] == "raised" or r[0] == "raised":
                if r[0] == "raised":
                    rec.violation("not-transparent:%s:refused-sequentially-but-not-in-this-schedule" % SCRIPTS[scn["script"]][i][0],
                                  "%s step %d" % (sk, i), case)
                continue
            if not same_outcome(o, r):
                step = SCRIPTS[scn["script"]][i][0]
                what = "none-instead-of-document" if o[0] == "none" else ("document-instead-of-none" if r[0] == "none" else "document-differs")
                detail = model.diff(r[1], o[1], ignore=("id",))[:2] if o[0] == r[0] == "doc" else ""
                rec.violation("not-transparent:%s:%s" % (step, what), "%s step %d: %s %r; trace %r" % (sk, i, what, detail, s.trace[-10:]), case)
    # independent of the sequential reference (which runs the same code): a resource that cannot be fetched and
    # whose cached copy is missing or outdated gives None, every time; successive loads agree
    script = SCRIPTS[scn["script"]]
    if scn["graph"] in ("vanished-root", "missing-root") and scn["cache"] in ("empty", "stale") and len(outcomes) == len(script):
        for i, (step, o) in enumerate(zip(script, outcomes)):
            if step[0] in ("load", "tload") and o[0] == "doc":
                rec.violation("unfetchable-resource:%s-returned-a-document:%s" % (step[0], scn["cache"]),
                              "%s step %d: the resource cannot be fetched and the cache holds %s" % (
                                  sk, i, "nothing" if scn["cache"] == "empty" else "an outdated copy"), case)
    if scn["graph"] in ("single", "chain", "long-chain", "nested", "nested-whole", "diamond") and len(outcomes) == len(script):
        for i, (step, o) in enumerate(zip(script, outcomes)):
            if step[0] not in ("load", "tload", "docrepository"):
                continue
            exp_names = expected_names(scn["graph"], step[1])
            if exp_names is None:
                continue
            rec.monitor("resolved-structure")
            if o[0] == "none":
                rec.violation("loadable-resource:%s-returned-None" % step[0], "%s step %d (%s)" % (sk, i, step[1]), case)
            elif o[0] == "doc" and names_of_model(o[1]) != exp_names:
                rec.violation("loadable-resource:%s-not-fully-resolved" % step[0],
                              "%s step %d: sections/properties %r, expected %r" % (sk, i, names_of_model(o[1]), exp_names), case)
    if scn["graph"] in ("missing-then-good", "good-then-missing", "unparsable-then-good", "missing-leaf", "unparsable-leaf") \
            and len(outcomes) == len(script):
        # one include of the root cannot be resolved, whatever its position among the includes: the root is not loadable
        for i, (step, o) in enumerate(zip(script, outcomes)):
            if step[0] in ("load", "tload") and step[1] == "A":
                rec.monitor("resolved-structure")
                if o[0] == "doc":
                    rec.violation("unresolvable-include:%s-returned-a-document" % step[0],
                                  "%s step %d: %r" % (sk, i, sorted(names_of_model(o[1]))), case)
    if scn["cache"] == "stale" and len(outcomes) == len(script):
        # independent of the reference run: an outdated cache entry (older than the cache age) is fetched again, so no
        # loaded document may carry the marks the outdated copies were given
        for i, (step, o) in enumerate(zip(script, outcomes)):
            if step[0] in ("load", "tload") and o[0] == "doc":
                rec.monitor("resolved-structure")
                marks = [n.get("definition") for _, n in model.walk(o[1]) if n["k"] == "sec"] + [o[1].get("author")]
                if any(isinstance(m, str) and (m.startswith("old def of") or m.startswith("outdated ")) for m in marks):
                    rec.violation("outdated-cache-served:%s" % step[0], "%s step %d returns the outdated cached copy" % (sk, i), case)
    prev = {}
    if len(outcomes) == len(script):
        for i, (step, o) in enumerate(zip(script, outcomes)):
            if step[0] in ("refresh", "modify"):
                prev.clear()
            if step[0] in ("load", "tload") and o[0] in ("none", "doc"):
                k = (step[0], step[1])
                if k in prev and prev[k] != o[0]:
                    rec.violation("successive-loads-disagree:%s:%s-then-%s" % (step[0], prev[k], o[0]), "%s step %d" % (sk, i), case)
                prev[k] = o[0]
    # cache identity: repeated loads return the same object until refresh
    last = {}
    for op, url, obj in objs:
        if op == "treset":
            last.pop(("tload", url), None)
            continue
        if op == "refresh":
            last.pop(("load", url), None)
            continue
        if (op, url) in last and obj is not None and last[(op, url)] is not None and last[(op, url)] is not obj:
            rec.violation("cache-identity:later-%s-returned-another-object" % op, sk, case)
        last[(op, url)] = obj
    # cache files: nothing created / rewritten for a resource that cannot be fetched
    rec.monitor("cache-files")
    missing = cache_name(urls["M"])
    if missing in after:
        rec.violation("cache-file-created-for-failed-fetch", missing, case)
    for e in fs.writes():
        if any(os.path.basename(p) == missing for p in e[1:]):
            rec.violation("cache-file-written-for-failed-fetch", repr(e), case)
    if scn["graph"] == "vanished-root":
        gone = cache_name(urls["A"])
        for e in fs.writes():
            if any(os.path.basename(p) == gone for p in e[1:]):
                rec.violation("cache-file-touched-for-failed-fetch:%s" % e[0], repr(e), case)
        if before.get(gone) != after.get(gone):
            rec.violation("cache-file-changed-by-failed-fetch", gone, case)


def _exc_class(exc):
    m = str(exc)
    if "before it is started" in m:
        return "join-before-start"
    if "only be started once" in m:
        return "double-start"
    if "NoneType" in m:
        return "include-of-unavailable-resource"
    return "other"


def _msg_class(msg, scn):
    if "before it is started" in msg:
        return "join-before-start"
    if "only be started once" in msg:
        return "double-start"
    if "NoneType" in msg and scn["graph"] in ("missing-leaf", "unparsable-leaf"):
        return "include-of-unavailable-resource"
    return scn["graph"]


def explore(ctx, scn, sdir, bound, n_random):
    rec = ctx.rec
    urls = build_graph(scn["graph"], sdir, "%d" % os.getpid())
    # sequential reference
    prepare_cache(scn["cache"], SCRIPTS[scn["script"]], urls, scn["graph"])
    with warnings.catch_warnings():
        warnings.simplefilter("ignore")
        ref, _ = run_script(SCRIPTS[scn["script"]], urls, use_deferred=False)
    for i, r in enumerate(ref):
        if r[0] == "raised":
            if SCRIPTS[scn["script"]][i][0] == "include" and r[1].startswith("ValueError"):
                continue
            rec.violation("sequential-call-raised:%s:%s" % (r[1].split(":")[0], _msg_class(r[1], scn)),
                          "%s/%s step %d raises without any concurrency: %s" % (scn["graph"], scn["script"], i, r[1]),
                          {"scenario": scn, "decisions": {}, "sequential": True})
    seen = set()
    frontier = [({}, -1)]
    level = 0
    runs = 0
    while frontier and level <= bound:
        nxt = []
        for decisions, last in frontier:
            s, outcomes, objs, before, after, fs = execute(scn, urls, decisions)
            runs += 1
            rec.evaluation()
            h = core.h(s.trace)
            if h not in seen:
                seen.add(h)
                rec.case(h, len(s.by_tid) > 1)
                rec.state(h)
                judge(rec, scn, urls, ref, s, outcomes, objs, before, after, fs, decisions)
            rec.extra["max_scheduling_points"] = max(rec.extra.get("max_scheduling_points", 0), len(s.points))
            if level < bound:
                for idx, (tid, label, nalt, chosen) in enumerate(s.points):
                    if idx <= last or nalt < 2:
                        continue
                    for rank in range(1, nalt):
                        d2 = dict(decisions)
                        d2[idx] = rank
                        nxt.append((d2, idx))
            if ctx.time_left() < 0:
                rec.extra["exploration_cut_short"] = True
                return runs
        rec.count("schedules-per-preemption-level", "%s/%s/%s level %d" % (scn["graph"], scn["script"], scn["cache"], level), len(frontier))
        frontier = nxt
        level += 1
    for j in range(n_random):
        rng = random.Random("C18|%s|%s|%s|%s|%d" % (ctx.seed, scn["graph"], scn["script"], scn["cache"], j))
        s, outcomes, objs, before, after, fs = execute(scn, urls, {}, rng, p_switch=rng.choice([0.1, 0.3, 0.5]))
        runs += 1
        rec.evaluation()
        h = core.h(s.trace)
        if h not in seen:
            seen.add(h)
            rec.case(h, len(s.by_tid) > 1)
            rec.state(h)
            decisions = {i: _rank_of(s, i) for i in range(len(s.points)) if _rank_of(s, i)}
            judge(rec, scn, urls, ref, s, outcomes, objs, before, after, fs, decisions)
    rec.count("distinct-interleavings", "%s/%s/%s" % (scn["graph"], scn["script"], scn["cache"]), len(seen))
    return runs


def _rank_of(s, i):
    tid, label, nalt, chosen = s.points[i]
    if nalt < 2 or chosen is None:
        return 0
    # rank 0 = the thread that reached the point continues (if it could)
    return 0 if chosen == tid else 1 + sorted(c for c in s.by_tid if c != tid).index(chosen) if chosen in s.by_tid else 0


def scenarios():
    out = []
    for g in ("single", "chain", "long-chain", "nested", "nested-whole", "diamond", "missing-then-good", "good-then-missing", "unparsable-then-good",
              "missing-leaf", "unparsable-leaf", "sectionless-leaf", "sectionless-then-good", "missing-root", "vanished-root"):
        for script in SCRIPTS:
            if g == "vanished-root":
                if script in ("load-twice", "deferred+load", "template-load", "template-load-twice"):
                    for cache in ("stale", "warm-outdated"):
                        out.append({"graph": g, "script": script, "cache": cache})
                continue
            if "B" in [st[1] for st in SCRIPTS[script]] and g not in ("chain", "diamond", "nested", "nested-whole"):
                continue
            if g in ("missing-then-good", "good-then-missing", "unparsable-then-good", "long-chain", "sectionless-leaf",
                     "sectionless-then-good") and script not in (
                    "load", "deferred+load", "template-load", "load-twice", "refresh"):
                continue
            if g == "missing-root" and script not in ("load", "deferred+load", "template-load", "repository", "load-twice",
                                                       "template-load-twice"):
                continue
            for cache in ("empty", "warm", "stale", "warm-outdated"):
                if cache != "empty" and script in ("include", "repository", "doc-repository", "template-deferred-twice"):
                    continue
                out.append({"graph": g, "script": script, "cache": cache})
    return out


def run(ctx):
    from vlib import env
    sdir = env.scratch()
    install()
    rec = ctx.rec
    scns = scenarios()
    if ctx.shard == 0:
        rec.extra["scenarios"] = len(scns)
    bound = ctx.pick(1, 2)
    for i, scn in enumerate(scns):
        if not ctx.mine(i):
            continue
        b = bound
        if scn["graph"] == "diamond" and not ctx.quick() and scn["cache"] != "empty":
            b = 1
        runs = explore(ctx, scn, sdir, b, ctx.pick(15, 300))
        if i % 10 == 0:
            rec.sample({"scenario": scn, "executions": runs})
    rec.extra["preemption_bound"] = bound


def replay(case, ctx):
    from vlib import env
    install()
    sdir = env.scratch()
    scn = case["scenario"]
    urls = build_graph(scn["graph"], sdir, "replay")
    prepare_cache(scn["cache"], SCRIPTS[scn["script"]], urls, scn["graph"])
    with warnings.catch_warnings():
        warnings.simplefilter("ignore")
        ref, _ = run_script(SCRIPTS[scn["script"]], urls, use_deferred=False)
    if case.get("sequential"):
        for i, r in enumerate(ref):
            if r[0] == "raised":
                ctx.rec.violation("sequential-call-raised:%s" % r[1].split(":")[0], r[1], case)
        return
    decisions = {int(k): v for k, v in case["decisions"].items()}
    s, outcomes, objs, before, after, fs = execute(scn, urls, decisions)
    env.say("trace: %r" % s.trace)
    judge(ctx.rec, scn, urls, ref, s, outcomes, objs, before, after, fs, decisions)
