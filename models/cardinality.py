"""Reference model of odML cardinalities (from the property statement and the docstrings of the
setters): normal form, accept/reject decision with a don't-care zone, violation predicate."""

ACCEPT, REJECT, DONTCARE = "accept", "reject", "dontcare"


def is_count(x):
    return isinstance(x, int) and not isinstance(x, bool) and x >= 0


def normal_form(c):
    """c is None or a (min, max) tuple of non-negative ints / None, min <= max, not both empty."""
    if c is None:
        return True
    if not isinstance(c, tuple) or len(c) != 2:
        return False
    a, b = c
    for z in (a, b):
        if z is not None and not is_count(z):
            return False
    if a is None and b is None:
        return False
    if a is not None and b is not None and a > b:
        return False
    return True


def expected(inp):
    """(zone, set_of_acceptable_stored_values).  zone ACCEPT: must be stored as one of the values;
    REJECT: must raise ValueError and keep the previous setting; DONTCARE: either is fine, but if
    accepted the stored value must be in the set."""
    if inp is None:
        return ACCEPT, {None}
    if isinstance(inp, bool):
        return DONTCARE, {None, (None, 1)}
    if isinstance(inp, int):
        if inp > 0:
            return ACCEPT, {(None, inp)}
        if inp == 0:
            return DONTCARE, {None}          # falsy scalar: counts as "unset"
        return REJECT, set()
    if isinstance(inp, (tuple, list)) and len(inp) == 2:
        a, b = inp
        ok = all(z is None or is_count(z) for z in (a, b))
        if not ok:
            return REJECT, set()
        if a is not None and b is not None and a > b:
            return REJECT, set()
        if not a and not b:
            # (None, None), (0, 0), (0, None), (None, 0): "both empty" -> unset; keeping a 0 is fine too
            acc = {None}
            if a == 0 or b == 0:
                acc.add((a, b))
            return ACCEPT, acc
        # one component is 0 and the other a positive count: the pair itself, or 0 read as "no limit"
        acc = {(a, b)}
        if a == 0:
            acc.add((None, b))
        return ACCEPT, acc
    if not inp and not isinstance(inp, (int, float)):
        return DONTCARE, {None}              # '', [], (), {}: falsy, counts as "unset"
    if isinstance(inp, float) and inp == 0:
        return DONTCARE, {None}
    return REJECT, set()


def violated(card, count):
    """Is the child count outside [min, max] of a stored (normal form) cardinality?"""
    if card is None:
        return False
    a, b = card
    if a is not None and count < a:
        return True
    if b is not None and count > b:
        return True
    return False


def valid_pairs(lo=0, hi=4):
    vals = [None] + list(range(lo, hi + 1))
    out = []
    for a in vals:
        for b in vals:
            c = (a, b)
            if normal_form(c):
                out.append(c)
    return out
