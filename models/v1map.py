"""Abstract odML 1.0 documents: emitters for 1.0 XML / JSON / YAML and the expected 1.1 document
(vlib.model shape) with the don't-care alternatives where 1.0 values disagree.  Imports nothing from odml."""
import copy
import re
import uuid

VALUE_ATTRS = ("type", "unit", "uncertainty", "filename", "definition", "reference")
UNSUPPORTED_VALUE = ("checksum", "encoder", "comment", "mimetype")
UNSUPPORTED_PROP = ("mapping", "synonym", "dependency_old", "date")
UNSUPPORTED_SEC = ("mapping", "isterminology", "created")
UNSUPPORTED_DOC = ("comment", "created_by")


def esc(s):
    return s.replace("&", "&amp;").replace("<", "&lt;").replace(">", "&gt;")


def to_xml(doc, comments=False):
    out = ['<?xml version="1.0" encoding="UTF-8"?>', '<odML version="1">']

    def el(tag, text, lvl):
        out.append("%s<%s>%s</%s>" % ("  " * lvl, tag, esc(text), tag))

    def value(v, lvl, type_tag):
        inner = "".join("<%s>%s</%s>" % (type_tag if k == "type" else k, esc(str(x)), type_tag if k == "type" else k)
                        for k, x in v.items() if k not in ("text", "_xmlcomment") and x is not None)
        if comments and v.get("_xmlcomment"):
            inner = "<!-- %s -->" % v["_xmlcomment"] + inner
        out.append("%s<value>%s%s</value>" % ("  " * lvl, esc(v["text"]), inner))

    def prop(p, lvl):
        out.append("%s<property>" % ("  " * lvl))
        if p.get("name") is not None:
            el("name", p["name"], lvl + 1)
        for k in ("id", "definition", "dependency"):
            if p.get(k) is not None:
                el(k, p[k], lvl + 1)
        if p.get("dependency_value") is not None:
            el(p.get("depval_tag", "dependency_value"), p["dependency_value"], lvl + 1)
        for tag, text in p.get("unsupported", []):
            el(tag, text, lvl + 1)
        if comments and p.get("comment"):
            out.append("%s<!-- %s -->" % ("  " * (lvl + 1), p["comment"]))
        for v in p["values"]:
            value(v, lvl + 1, p.get("type_tag", "type"))
        out.append("%s</property>" % ("  " * lvl))

    def sec(s, lvl):
        out.append("%s<section>" % ("  " * lvl))
        el("name", s["name"], lvl + 1)
        el("type", s["type"], lvl + 1)
        for k in ("id", "definition", "reference", "repository"):
            if s.get(k) is not None:
                el(k, s[k], lvl + 1)
        for tag, text in s.get("unsupported", []):
            el(tag, text, lvl + 1)
        if comments and s.get("comment"):
            out.append("%s<!-- %s -->" % ("  " * (lvl + 1), s["comment"]))
        for p in s["properties"]:
            prop(p, lvl + 1)
        for c in s["sections"]:
            sec(c, lvl + 1)
        out.append("%s</section>" % ("  " * lvl))
    for k in ("id", "author", "version", "date", "repository"):
        if doc.get(k) is not None:
            el(k, doc[k], 1)
    for tag, text in doc.get("unsupported", []):
        el(tag, text, 1)
    for s in doc["sections"]:
        sec(s, 1)
    out.append("</odML>")
    return "\n".join(out) + "\n"


def _native(v):
    """The value as JSON / YAML would carry it when the author did not quote it: numbers and booleans natively typed."""
    t, typ = v["text"], v.get("type")
    try:
        if typ == "int":
            return int(t)
        if typ == "float":
            return float(t)
        if typ == "boolean" and t.strip().lower() in ("true", "false"):
            return t.strip().lower() == "true"
    except (ValueError, TypeError):
        pass
    return t


def to_dict(doc):
    """odML 1.0 dictionary layout (JSON / YAML): values are lists of mappings."""
    def prop(p):
        d = {}
        if p.get("name") is not None:
            d["name"] = p["name"]
        for k in ("id", "definition", "dependency"):
            if p.get(k) is not None:
                d[k] = p[k]
        if p.get("dependency_value") is not None:
            d[p.get("depval_tag", "dependency_value")] = p["dependency_value"]
        for tag, text in p.get("unsupported", []):
            d[tag] = text
        vals = []
        for v in p["values"]:
            vd = {"value": _native(v) if p.get("native") else v["text"]}
            for k, x in v.items():
                if k not in ("text", "_xmlcomment") and x is not None:
                    vd[p.get("type_tag", "type") if k == "type" else k] = x
            vals.append(vd)
        d["values"] = vals
        return d

    def sec(s):
        d = {"name": s["name"], "type": s["type"]}
        for k in ("id", "definition", "reference", "repository"):
            if s.get(k) is not None:
                d[k] = s[k]
        for tag, text in s.get("unsupported", []):
            d[tag] = text
        d["properties"] = [prop(p) for p in s["properties"]]
        d["sections"] = [sec(c) for c in s["sections"]]
        return d
    dd = {}
    for k in ("id", "author", "version", "date", "repository"):
        if doc.get(k) is not None:
            dd[k] = doc[k]
    for tag, text in doc.get("unsupported", []):
        dd[tag] = text
    dd["sections"] = [sec(s) for s in doc["sections"]]
    return {"Document": dd, "odml-version": "1"}


def valid_id(s):
    try:
        return str(uuid.UUID(s))
    except Exception:
        return None


def conv(text, dtype):
    """(ok, value) for the dtypes the generator uses."""
    try:
        if dtype == "int":
            return True, int(text)
        if dtype == "float":
            return True, float(text)
        if dtype == "boolean":
            t = text.strip().lower()
            if t in ("true", "1", "t"):
                return True, True
            if t in ("false", "0", "f"):
                return True, False
            return False, None
        if dtype in ("time", "date", "datetime"):
            import datetime as _dt
            fmt = {"time": "%H:%M:%S", "date": "%Y-%m-%d", "datetime": "%Y-%m-%d %H:%M:%S"}[dtype]
            v = _dt.datetime.strptime(text.strip(), fmt)       # the documented formats; fields need no leading zero
            return True, {"time": v.time(), "date": v.date(), "datetime": v}[dtype]
        return True, text
    except ValueError:
        return False, None


def uniq_names(items):
    """1.0 allowed equal sibling names; 1.1 makes them unique by a numeric suffix (second gets -2, ...)."""
    seen = {}
    out = []
    for it in items:
        n = it["name"]
        if n not in seen:
            seen[n] = 1
            out.append(n)
            continue
        while True:                      # count on until the suffixed name is free
            seen[n] += 1
            cand = "%s-%d" % (n, seen[n])
            if cand not in seen:
                break
        seen[cand] = 1
        out.append(cand)
    return out


def expected(doc):
    """Returns (model, alts, dropped, notes).  alts[(path, field)] = acceptable alternative values;
    dropped = list of (what, text) that must be mentioned in the conversion log;
    notes = set of tags describing hazards present in this document (used to classify findings)."""
    alts, dropped, notes = {}, [], set()
    import datetime as _dt
    date = _dt.date.fromisoformat(doc["date"]) if doc.get("date") else None
    m = {"k": "doc", "id": valid_id(doc["id"]) if doc.get("id") else None, "author": doc.get("author"), "version": doc.get("version"), "date": date,
         "repository": doc.get("repository"), "sections": []}
    for tag, text in doc.get("unsupported", []):
        dropped.append(("doc-element", tag))

    def prop(p, path, name):
        here = path + ":" + name
        e = {"k": "prop", "id": valid_id(p["id"]) if p.get("id") else None, "name": name, "unit": None, "uncertainty": None,
             "reference": None, "definition": p.get("definition"), "dependency": p.get("dependency"),
             "dependency_value": p.get("dependency_value"), "value_origin": None, "val_cardinality": None}
        for tag, text in p.get("unsupported", []):
            dropped.append(("prop-element", tag))
        cands = {k: [] for k in VALUE_ATTRS}
        for v in p["values"]:
            for k in VALUE_ATTRS:
                if v.get(k) is not None:
                    x = "text" if (k == "type" and v[k] == "binary") else v[k]
                    if x not in cands[k]:
                        cands[k].append(x)
            for k in v:
                if k in UNSUPPORTED_VALUE:
                    dropped.append(("value-element", k))
        if e["definition"] is not None and cands["definition"] and e["definition"] not in cands["definition"]:
            cands["definition"].insert(0, e["definition"])
        elif e["definition"] is not None:
            cands["definition"] = [e["definition"]] + [c for c in cands["definition"] if c != e["definition"]]
        dtype = cands["type"][0] if cands["type"] else None
        e["dtype"] = dtype
        for k, field in (("unit", "unit"), ("uncertainty", "uncertainty"), ("filename", "value_origin"),
                         ("definition", "definition"), ("reference", "reference"), ("type", "dtype")):
            if cands[k]:
                e[field] = cands[k][0]
                if len(cands[k]) > 1:
                    alts[(here, field)] = list(cands[k])
                    notes.add("conflicting-value-attribute:" + k)
        texts = [v["text"].strip() for v in p["values"] if v["text"] and v["text"].strip()]
        for t in texts:
            if any(c in t for c in ',"') or "\n" in t or (t.startswith("[") and t.endswith("]")):
                notes.add("value-text-with-csv-special-character")
        if len(cands["type"]) > 1:
            notes.add("conflicting-value-dtypes")
        vals = []
        for t in texts:
            ok, cv = conv(t, dtype) if dtype else (True, t)
            if not ok:
                notes.add("value-not-convertible-to-lifted-dtype")
                cv = t
            vals.append(cv)
        e["values"] = vals
        if dtype is None and vals:
            e["dtype"] = "text" if "\n" in vals[0] else "string"
        return e

    def sec(s, path, name):
        here = path + "/" + name
        e = {"k": "sec", "id": valid_id(s["id"]) if s.get("id") else None, "name": name, "type": s["type"],
             "definition": s.get("definition"), "reference": s.get("reference"), "repository": s.get("repository"), "link": None,
             "include": None, "sec_cardinality": None, "prop_cardinality": None, "properties": [], "sections": []}
        for tag, text in s.get("unsupported", []):
            dropped.append(("sec-element", tag))
        named = [p for p in s["properties"] if p.get("name") is not None]
        for p in s["properties"]:
            if p.get("name") is None:
                dropped.append(("unnamed-property", ""))
        pn = uniq_names(named)
        if len(set(pn)) != len(pn):
            notes.add("rename-collides-with-existing-name")
        for p, n in zip(named, pn):
            e["properties"].append(prop(p, here, n))
        sn = uniq_names(s["sections"])
        if len(set(sn)) != len(sn):
            notes.add("rename-collides-with-existing-name")
        for c, n in zip(s["sections"], sn):
            e["sections"].append(sec(c, here, n))
        return e
    tn = uniq_names(doc["sections"])
    if len(set(tn)) != len(tn):
        notes.add("rename-collides-with-existing-name")
    for s, n in zip(doc["sections"], tn):
        m["sections"].append(sec(s, "", n))
    return m, alts, dropped, notes
