"""odML format 1.1 vocabulary, written down from the odML 1.1 specification (doc/ of the
repository and https://g-node.github.io/python-odml) -- deliberately NOT imported from
odml.format, so that an edit to the library's format tables is caught rather than followed."""

FORMAT_VERSION = "1.1"

# XML element name -> allowed child element names
XML_CHILDREN = {
    "odML": {"id", "version", "author", "date", "repository", "section"},
    "section": {"id", "type", "name", "definition", "reference", "link", "repository", "include",
                "section", "property", "sec_cardinality", "prop_cardinality"},
    "property": {"id", "name", "value", "unit", "definition", "dependency", "dependencyvalue",
                 "uncertainty", "reference", "type", "value_origin", "val_cardinality"},
}
XML_REQUIRED = {"odML": set(), "section": {"name", "type"}, "property": {"name"}}
XML_CONTAINERS = {"section", "property"}
XSL_NS = "http://www.w3.org/1999/XSL/Transform"

# dictionary layout (JSON / YAML): allowed keys per object kind
DICT_ROOT_KEYS = {"Document", "odml-version"}
DICT_KEYS = {
    "doc": {"id", "version", "author", "date", "repository", "sections"},
    "sec": {"id", "type", "name", "definition", "reference", "link", "repository", "include",
            "sections", "properties", "sec_cardinality", "prop_cardinality"},
    "prop": {"id", "name", "value", "unit", "definition", "dependency", "dependencyvalue",
             "uncertainty", "reference", "type", "value_origin", "val_cardinality"},
}

# model attribute -> XML element / dict key
DOC_FIELDS = {"id": "id", "author": "author", "version": "version", "date": "date",
              "repository": "repository"}
SEC_FIELDS = {"id": "id", "name": "name", "type": "type", "definition": "definition",
              "reference": "reference", "repository": "repository", "link": "link",
              "include": "include", "sec_cardinality": "sec_cardinality",
              "prop_cardinality": "prop_cardinality"}
PROP_FIELDS = {"id": "id", "name": "name", "dtype": "type", "unit": "unit",
               "uncertainty": "uncertainty", "reference": "reference", "definition": "definition",
               "dependency": "dependency", "dependency_value": "dependencyvalue",
               "value_origin": "value_origin", "val_cardinality": "val_cardinality"}


def xml_char_ok(ch):
    """XML 1.0 Char production."""
    c = ord(ch)
    return c in (0x9, 0xA, 0xD) or 0x20 <= c <= 0xD7FF or 0xE000 <= c <= 0xFFFD or 0x10000 <= c <= 0x10FFFF


def xml_representable(s):
    return all(xml_char_ok(ch) for ch in s)
