"""Reference model of the documented validation rules (doc/advanced_features.rst and the property
statement).  Works on live objects but reads private fields only; imports nothing from odml.

An expectation is a list of dicts:
  {"kind", "rank", "objs": [ids of candidate objects], "count": n, "zone": "must"}
meaning: exactly n issues of that kind and rank on objects of the group.  "mustnot" entries are
implied: any reported issue of a judged kind that no expectation accounts for is spurious."""
from .cardinality import violated

ERROR, WARNING = "error", "warning"

# issue id -> kind
def _same_uuid(oid):
    """Two ids are the same id when they denote the same UUID, however spelled (upper case, braces, urn:uuid:)."""
    import uuid
    try:
        return str(uuid.UUID(oid))
    except (ValueError, TypeError, AttributeError):
        return oid


KIND_OF = {101: "required", 102: "type-unspecified", 200: "dup-id", 201: "dup-id", 202: "dup-section-name-type",
           203: "dup-property-name", 300: "name-is-id", 401: "dependency", 402: "values-dtype",
           500: "card-properties", 501: "card-sections", 502: "card-values"}
RANK_OF = {"required": ERROR, "dup-id": ERROR, "dup-section-name-type": ERROR, "dup-property-name": ERROR,
           "type-unspecified": WARNING, "name-is-id": WARNING, "dependency": WARNING, "values-dtype": WARNING,
           "card-properties": WARNING, "card-sections": WARNING, "card-values": WARNING}
IGNORED_IDS = {400, 403, 600, 701, 1}


def _k(o):
    n = type(o).__name__
    return {"BaseDocument": "doc", "BaseSection": "sec", "BaseProperty": "prop"}.get(n)


def _secs(o):
    return list(list.__iter__(o.__dict__.get("_sections", [])))


def _props(o):
    return list(list.__iter__(o.__dict__.get("_props", [])))


def scope(root):
    """Objects a validation of root covers, in traversal order."""
    out = [root]
    if _k(root) == "prop":
        return out
    queue = list(_secs(root))
    while queue:
        s = queue.pop(0)
        out.append(s)
        out.extend(_props(s))
        queue.extend(_secs(s))
    if _k(root) == "sec":
        # the root Section's own properties
        out[1:1] = _props(root)
    return out


def text_forms(v):
    forms = {str(v)}
    if isinstance(v, bool):
        forms |= {str(v).lower()}
    return forms


def expectations(root):
    exp = []
    dontcare = []   # (kind, id(obj)) pairs on which any number of issues is tolerated
    objs = scope(root)
    # required attributes
    for o in objs:
        d = o.__dict__
        k = _k(o)
        n = 0
        if k in ("sec", "prop") and not d.get("_name"):
            n += 1
        if k == "sec":
            t = d.get("type", getattr(type(o), "type", None))
            if not t and not isinstance(t, bool):
                n += 1
            if t == "n.s.":
                exp.append({"kind": "type-unspecified", "rank": WARNING, "objs": [id(o)], "count": 1})
        if n:
            exp.append({"kind": "required", "rank": ERROR, "objs": [id(o)], "count": n})
        if k in ("sec", "prop") and d.get("_name") == d.get("_id"):
            exp.append({"kind": "name-is-id", "rank": WARNING, "objs": [id(o)], "count": 1})
    # duplicate ids within the validated scope
    groups = {}
    for o in objs:
        groups.setdefault(_same_uuid(o.__dict__.get("_id")), []).append(o)
    for oid, grp in groups.items():
        if len(grp) > 1:
            exp.append({"kind": "dup-id", "rank": ERROR, "objs": [id(o) for o in grp], "count": len(grp) - 1})
    # duplicate sibling names
    for o in objs:
        k = _k(o)
        if k in ("doc", "sec"):
            g = {}
            for s in _secs(o):
                g.setdefault((s.__dict__.get("_name"), s.__dict__.get("type", getattr(type(s), "type", None))), []).append(s)
            for key, grp in g.items():
                if len(grp) > 1:
                    exp.append({"kind": "dup-section-name-type", "rank": ERROR, "objs": [id(x) for x in grp],
                                "count": len(grp) - 1})
        if k == "sec":
            g = {}
            for p in _props(o):
                g.setdefault(p.__dict__.get("_name"), []).append(p)
            for key, grp in g.items():
                if len(grp) > 1:
                    exp.append({"kind": "dup-property-name", "rank": ERROR, "objs": [id(x) for x in grp],
                                "count": len(grp) - 1})
    # dependency (three zones)
    for o in objs:
        if _k(o) != "prop":
            continue
        d = o.__dict__
        dep = d.get("_dependency")
        # the Section that holds the Property (found among the validated objects, not through the Property's own
        # parent reference; that reference only counts for a Property validated on its own)
        holders = [h for h in objs if _k(h) == "sec" and any(q is o for q in _props(h))]
        par = holders[0] if holders else d.get("_parent")
        if dep is None or par is None:
            continue
        sibs = [p for p in _props(par) if p.__dict__.get("_name") == dep]
        if not sibs:
            exp.append({"kind": "dependency", "rank": WARNING, "objs": [id(o)], "count": 1})
            continue
        dv = d.get("_dependency_value")
        vals = sibs[0].__dict__.get("_values") or []
        if dv is None:
            # existence is all that was asked for: satisfied
            continue
        if any(dv == v for v in vals) or any(str(dv) == str(v) for v in vals):
            continue  # satisfied: must not warn
        if any(str(dv).lower() == str(v).lower() for v in vals):
            dontcare.append(("dependency", id(o)))   # e.g. 'true' vs True: which text form counts is not prescribed
            continue
        if len(sibs) > 1:
            dontcare.append(("dependency", id(o)))
            continue
        # value differs from every value of the dependency by == and by text: the documented
        # message says "not equal to value of the property's dependency" -> must warn
        exp.append({"kind": "dependency", "rank": WARNING, "objs": [id(o)], "count": 1})
    # cardinalities
    for o in objs:
        d = o.__dict__
        k = _k(o)
        if k == "sec":
            if violated(d.get("_prop_cardinality"), len(_props(o))):
                exp.append({"kind": "card-properties", "rank": WARNING, "objs": [id(o)], "count": 1})
            if violated(d.get("_sec_cardinality"), len(_secs(o))):
                exp.append({"kind": "card-sections", "rank": WARNING, "objs": [id(o)], "count": 1})
        if k == "prop":
            if violated(d.get("_val_cardinality"), len(d.get("_values") or [])):
                exp.append({"kind": "card-values", "rank": WARNING, "objs": [id(o)], "count": 1})
    return exp, dontcare


def bad_values(o, is_bad):
    """values-dtype expectation is supplied by the workload (it knows which values it injected)."""
    return {"kind": "values-dtype", "rank": WARNING, "objs": [id(o)], "count": None if is_bad else 0}


def compare(exp, dontcare, reported, values_exp=()):
    """reported: list of (id(obj), issue_no, rank).  Returns list of (problem, kind, detail)."""
    probs = []
    rep = {}
    for oid, no, rank in reported:
        if no in IGNORED_IDS:
            continue
        kind = KIND_OF.get(no)
        if kind is None:
            probs.append(("unknown-issue-id", str(no), "issue id %r" % no))
            continue
        rep.setdefault(kind, []).append((oid, rank))
    accounted = {k: [False] * len(v) for k, v in rep.items()}
    for e in list(exp) + [v for v in values_exp]:
        kind = e["kind"]
        hits = [i for i, (oid, rank) in enumerate(rep.get(kind, [])) if oid in e["objs"]]
        for i in hits:
            accounted[kind][i] = True
        if e["count"] is None:       # at least one
            if not hits:
                probs.append(("missing", kind, "no %s issue on the object" % kind))
        elif e["count"] == 0:
            if hits:
                probs.append(("spurious", kind, "%d %s issues on an object that satisfies the rule" % (len(hits), kind)))
        elif len(hits) != e["count"]:
            probs.append(("missing" if len(hits) < e["count"] else "surplus", kind,
                          "expected %d %s issue(s) in a group of %d, got %d" % (e["count"], kind, len(e["objs"]), len(hits))))
        for i in hits:
            if rep[kind][i][1] != e["rank"]:
                probs.append(("wrong-rank", kind, "%s reported as %s" % (kind, rep[kind][i][1])))
    for kind, flags in accounted.items():
        for i, ok in enumerate(flags):
            if not ok and (kind, rep[kind][i][0]) not in dontcare:
                if kind == "values-dtype" and not any(rep[kind][i][0] in v["objs"] for v in values_exp):
                    # values the workload did not inject are conforming (C05): any report is spurious
                    pass
                probs.append(("spurious", kind, "%s issue on an object that satisfies the rule" % kind))
                if rep[kind][i][1] != RANK_OF[kind]:
                    probs.append(("wrong-rank", kind, "%s reported as %s" % (kind, rep[kind][i][1])))
    return probs
