"""'Foreign tool' emitters: serialise a document model (vlib.model shape) to odML 1.1 XML text or
to the 1.1 dictionary layout without using python-odml or Python's csv module.  Styles differ on
purpose from the library's own writer (element order, indentation, quoting) while staying inside
the vocabulary."""
import datetime as dt

from . import odml11


def text_of(v):
    if isinstance(v, bool):
        return "true" if v else "false"
    if isinstance(v, dt.datetime):
        return v.strftime("%Y-%m-%d %H:%M:%S")
    if isinstance(v, dt.date):
        return v.isoformat()
    if isinstance(v, dt.time):
        return v.strftime("%H:%M:%S")
    if isinstance(v, float):
        return repr(v)
    if isinstance(v, list):  # odML tuple
        return "(" + ";".join(v) + ")"
    return str(v)


def csv_field(s):
    """RFC 4180 quoting."""
    if any(c in s for c in ',"\r\n') or s != s.strip() or s == "":
        return '"' + s.replace('"', '""') + '"'
    return s


def value_text(values, dtype):
    texts = [text_of(v) for v in values]
    if dtype and dtype.endswith("-tuple"):
        return "[" + ",".join(texts) + "]"
    if len(texts) == 1:
        return texts[0]
    return "[" + ",".join(csv_field(t) for t in texts) + "]"


def esc(s):
    return (s.replace("&", "&amp;").replace("<", "&lt;").replace(">", "&gt;")
            .replace("\r", "&#13;"))


def card_text(c):
    return "(%s, %s)" % (c[0], c[1])


def xml_from_model(m, rng=None, indent="\t"):
    """odML 1.1 XML text for a doc model.  rng (optional) shuffles element order."""
    out = ['<?xml version="1.0" encoding="UTF-8"?>', '<odML version="1.1">']

    def el(tag, text, lvl):
        out.append("%s<%s>%s</%s>" % (indent * lvl, tag, esc(text), tag))

    def order(items):
        items = list(items)
        if rng is not None:
            rng.shuffle(items)
        return items

    def prop(p, lvl):
        out.append("%s<property>" % (indent * lvl))
        parts = []
        for f, tag in odml11.PROP_FIELDS.items():
            v = p.get(f)
            if v is None:
                continue
            parts.append((tag, card_text(v) if f.endswith("cardinality") else text_of(v)))
        if p["values"]:
            parts.append(("value", value_text(p["values"], p.get("dtype"))))
        for tag, text in order(parts):
            el(tag, text, lvl + 1)
        out.append("%s</property>" % (indent * lvl))

    def sec(s, lvl):
        out.append("%s<section>" % (indent * lvl))
        parts = []
        for f, tag in odml11.SEC_FIELDS.items():
            v = s.get(f)
            if v is None:
                continue
            parts.append((tag, card_text(v) if f.endswith("cardinality") else text_of(v)))
        for tag, text in order(parts):
            el(tag, text, lvl + 1)
        # children keep their relative order (order is content)
        kids = [("p", p) for p in s.get("properties", [])] + [("s", c) for c in s.get("sections", [])]
        if rng is not None and rng.random() < 0.5:
            kids = [k for k in kids if k[0] == "s"] + [k for k in kids if k[0] == "p"]
        for k, c in kids:
            (prop if k == "p" else sec)(c, lvl + 1)
        out.append("%s</section>" % (indent * lvl))

    parts = []
    for f, tag in odml11.DOC_FIELDS.items():
        v = m.get(f)
        if v is not None:
            parts.append((tag, text_of(v)))
    for tag, text in order(parts):
        el(tag, text, 1)
    for s in m.get("sections", []):
        sec(s, 1)
    out.append("</odML>")
    return "\n".join(out) + "\n"


def dict_from_model(m, rng=None, native=True):
    """1.1 dictionary layout for a doc model.  native=True keeps JSON-native scalar types for
    values and gives cardinalities as lists; dates/times are given in their odML text form."""
    def scalar(v):
        if isinstance(v, (dt.datetime, dt.date, dt.time)):
            return text_of(v)
        if isinstance(v, list):
            return text_of(v)
        return v

    def shuffle(d):
        if rng is None:
            return d
        ks = list(d)
        rng.shuffle(ks)
        return {k: d[k] for k in ks}

    def prop(p):
        d = {}
        for f, key in odml11.PROP_FIELDS.items():
            v = p.get(f)
            if v is None:
                continue
            d[key] = list(v) if f.endswith("cardinality") else scalar(v)
        if p.get("dtype") and p["dtype"].endswith("-tuple") and p["values"]:
            d["value"] = "[" + ",".join(text_of(v) for v in p["values"]) + "]"
        else:
            d["value"] = [scalar(v) for v in p["values"]]
        return shuffle(d)

    def sec(s):
        d = {}
        for f, key in odml11.SEC_FIELDS.items():
            v = s.get(f)
            if v is None:
                continue
            d[key] = list(v) if f.endswith("cardinality") else scalar(v)
        d["properties"] = [prop(p) for p in s.get("properties", [])]
        d["sections"] = [sec(c) for c in s.get("sections", [])]
        # an empty child list may just as well be left out (hand-written files do that)
        for key in ("properties", "sections"):
            if not d[key] and rng is not None and rng.random() < 0.5:
                del d[key]
        return shuffle(d)

    doc = {}
    for f, key in odml11.DOC_FIELDS.items():
        v = m.get(f)
        if v is not None:
            doc[key] = scalar(v)
    doc["sections"] = [sec(s) for s in m.get("sections", [])]
    return shuffle({"odml-version": "1.1", "Document": shuffle(doc)})
