"""Seeded generators: document specs (pure data, same shape as vlib.model models), builders that
construct the real objects through the public API, hostile value pools."""
import datetime as dt
import uuid

HOSTILE_TEXT = [
    "a,b", "x, y", ",lead", "trail,", 'say "hi"', '"q"', "'s'", 'a"b', '""', "[x]", "[a, b]", "[", "]",
    "a]", "[b", "l1\nl2", "l1\r\nl2", "t\tb", " lead", "trail ", "  both  ", "<tag>", "a&b", "&amp;",
    "]]>", "<!-- c -->", "äöü", "日本", "\U0001F600", "a b", " nbsp",
    "yes", "no", "null", "~", "true", "False", "1e3", "0x10", "1_000", "2020-01-01", "12:30:00",
    "2020-01-01 12:30:00", "- x", "a: b", "#c", "x #y", "{a: 1}", "[1, 2]", "!!str x", "*a", "&a b", "|", ">",
    "%", "@", "`", "123", "1.5", "-0", "+1", ".5", "1.", "NaN", "inf", "(1;2)", "a;b", "", "0",
    "a\\b", "\\n", "\"", "','", "a,\"b\",c", "x\ny,z",
    # text that is not in a unicode normal form / has compatibility characters: kept verbatim
    u"cafe\u0301", u"\u2126", u"\u212b ngstr\u006f\u0308m", u"\u212a", u"\ufb01", u"\u1e9e", u"\u0130", u"e\u0301\u0323",
]
PLAIN_TEXT = ["alpha", "beta", "gamma delta", "Recording", "stim-1", "v_2", "A", "b c d", "Zed"]
XML_UNREPRESENTABLE = ["a\x00b", "x\x0bz", "\x1f", "￾"]

TEXT_DTYPES = ["string", "text", "url", "person"]
SCALAR_DTYPES = ["string", "text", "int", "float", "url", "datetime", "date", "time", "boolean", "person"]
FLOATS = [0.0, -0.0, 1.0, 0.1, 1 / 3.0, 2 / 3.0, 1e22, 1e-300, 1.7976931348623157e308, 5e-324,
          123456789.12345679, -2.5, 3.141592653589793, 1e16, 0.30000000000000004]
INTS = [0, 1, -1, 7, 42, 2 ** 31, 2 ** 63, 2 ** 64 + 1, -2 ** 70, 10 ** 30, 255]


def new_id(rng):
    return str(uuid.UUID(int=rng.getrandbits(128), version=4))


def rand_text(rng, hostile=0.5, nonempty=False):
    for _ in range(20):
        if rng.random() < hostile:
            s = rng.choice(HOSTILE_TEXT)
            if rng.random() < 0.2:
                s = s + rng.choice(PLAIN_TEXT)
            elif rng.random() < 0.2:
                s = rng.choice(PLAIN_TEXT) + s
        else:
            s = rng.choice(PLAIN_TEXT)
            if rng.random() < 0.3:
                s += str(rng.randrange(100))
        if not nonempty or s.strip():
            return s
    return "fallback"


def rand_attr_text(rng, hostile=0.5):
    """Text for an optional attribute: never empty / whitespace-only (that means 'unset')."""
    return rand_text(rng, hostile, nonempty=True)


def rand_date(rng):
    r = rng.random()
    if r < 0.06:
        return dt.date(rng.choice([1, 9, 99, 999, 476]), rng.randrange(1, 13), rng.randrange(1, 29))   # years with < 4 digits
    if r < 0.09:
        return rng.choice([dt.date(1, 1, 1), dt.date(9999, 12, 31), dt.date(2000, 2, 29), dt.date(1000, 1, 1)])
    return dt.date(rng.randrange(1000, 9999), rng.randrange(1, 13), rng.randrange(1, 29))


TZS = [dt.timezone.utc, dt.timezone(dt.timedelta(hours=5, minutes=30)), dt.timezone(dt.timedelta(hours=-8))]


def rand_time(rng):
    t = dt.time(rng.randrange(24), rng.randrange(60), rng.randrange(60))
    r = rng.random()
    if r < 0.08:
        t = t.replace(microsecond=rng.randrange(1, 999999))   # the API drops the sub-second part
    elif r < 0.16:
        t = t.replace(tzinfo=rng.choice(TZS))                 # ... and the time zone
    return t


def rand_value(rng, dtype, hostile=0.5):
    if dtype in ("string", "url", "person"):
        return rand_text(rng, hostile)
    if dtype == "text":
        s = rand_text(rng, hostile)
        return s if rng.random() < 0.5 else s + "\n" + rand_text(rng, hostile)
    if dtype == "int":
        if rng.random() < 0.04:
            return rng.choice([True, False])      # booleans are numbers for the API: stored as 1 / 0
        return rng.choice(INTS) if rng.random() < 0.5 else rng.randrange(-1000, 1000)
    if dtype == "float":
        if rng.random() < 0.04:
            return rng.choice([float("inf"), float("-inf"), float("nan")])
        return rng.choice(FLOATS) if rng.random() < 0.5 else rng.uniform(-1e6, 1e6)
    if dtype == "boolean":
        return rng.random() < 0.5
    if dtype == "date":
        return rand_date(rng)
    if dtype == "time":
        return rand_time(rng)
    if dtype == "datetime":
        d = rand_date(rng)
        if d.year < 1000:
            d = d.replace(year=d.year + 1000)     # the library refuses datetimes before the year 1000 (a refusal, not judged)
        return dt.datetime.combine(d, rand_time(rng))  # may carry microseconds / tzinfo
    if dtype.endswith("-tuple"):
        n = int(dtype[:-6])
        pool = ["1", "2.5", "x", "a b", "ä", "-3", "0", "left", "1024", "768"]
        if rng.random() < hostile * 0.3:
            pool = pool + ["a,b", "c d ", "q\"r", "[z]"]
        vals = [rng.choice(pool) for _ in range(n)]
        if n > 1 and rng.random() < 0.12:
            vals[rng.choice([0, n - 1, n - 1])] = ""        # an empty element (first or last) is legal
        return vals
    raise ValueError(dtype)


CARDS = [None, (None, 1), (None, 3), (1, None), (2, None), (0, 3), (1, 2), (2, 5), (1, 1), (2, 2),
         (0, 1), (3, 3), (2, 10), (9, 10), (5, 12), (10, 100), (None, 12), (11, None), (10, 10), (99, 100),
         (7, 1000), (0, 10), (20, 100)]


def rand_card(rng, p=0.3):
    if rng.random() > p:
        return None
    return rng.choice(CARDS[1:])


def gen_prop(rng, name, hostile=0.5, tuples=True, cards=True, falsy=True):
    r = rng.random()
    if tuples and r < 0.1:
        dtype = "%d-tuple" % rng.choice([1, 2, 3, 2, 3, 10, 12])      # (two digit arities as well)
    else:
        dtype = rng.choice(SCALAR_DTYPES)
    n = rng.choice([0, 1, 1, 1, 2, 3, 4])
    if rng.random() < 0.05:
        n = rng.choice([10, 11, 12, 23])     # enough values for textual / numeric index order to differ
    values = [rand_value(rng, dtype, hostile) for _ in range(n)]
    p = {"k": "prop", "id": new_id(rng), "name": name, "dtype": dtype, "values": values}
    for a in ("unit", "reference", "definition", "dependency", "dependency_value", "value_origin"):
        p[a] = rand_attr_text(rng, hostile * 0.6) if rng.random() < 0.25 else None
    u = rng.random()
    if u < 0.15:
        p["uncertainty"] = rng.choice([0.5, 1e-9, 12.25, 3, 1 / 3.0])
    elif falsy and u < 0.22:
        p["uncertainty"] = rng.choice([0, 0.0])
    else:
        p["uncertainty"] = None
    p["val_cardinality"] = rand_card(rng) if cards else None
    return p


def unique_names(rng, n, hostile=0.3, alphabet=None):
    names, seen = [], set()
    tries = 0
    while len(names) < n and tries < 200:
        tries += 1
        if alphabet:
            s = rng.choice(alphabet)
        else:
            s = rand_text(rng, hostile, nonempty=True)
        if "/" in s or ":" in s or s.strip() in (".", ".."):
            continue
        key = s.strip()
        if key in seen:
            s = s + str(len(names))
            key = s.strip()
            if key in seen:
                continue
        seen.add(key)
        names.append(s)
    return names


def gen_sec(rng, name, depth, budget, hostile=0.5, **kw):
    s = {"k": "sec", "id": new_id(rng), "name": name,
         "type": rng.choice(["n.s.", "recording", "stimulus/white_noise", "subject", "cell", "setup",
                             rand_attr_text(rng, hostile)])}
    for a in ("definition", "reference"):
        s[a] = rand_attr_text(rng, hostile * 0.6) if rng.random() < 0.25 else None
    s["repository"] = ("file:///nonexistent/terms_%d.xml" % rng.randrange(2)) if rng.random() < 0.15 else None
    s["link"] = None
    s["include"] = None
    if kw.get("links"):
        # references are only stored here (never resolved: the round-trip checks do not finalize)
        r = rng.random()
        if r < 0.06:
            s["link"] = rng.choice(["/some/other section", "../sibling", "/a/b/c"])
        elif r < 0.1:
            s["include"] = rng.choice(["file:///nonexistent/inc.xml#/x", "file:///nonexistent/other.xml"])
    cards = kw.get("cards", True)
    s["sec_cardinality"] = rand_card(rng) if cards else None
    s["prop_cardinality"] = rand_card(rng) if cards else None
    np_ = rng.choice([0, 1, 1, 2, 3]) if budget[0] > 0 else 0
    np_ = min(np_, budget[0])
    budget[0] -= np_
    pkw = {k: v for k, v in kw.items() if k in ("tuples", "cards", "falsy")}
    s["properties"] = [gen_prop(rng, n, hostile, **pkw) for n in unique_names(rng, np_, hostile * 0.6)]
    s["sections"] = []
    if depth > 0 and budget[0] > 0:
        ns = min(rng.choice([0, 0, 1, 2, 3]), budget[0])
        budget[0] -= ns
        for n in unique_names(rng, ns, hostile * 0.6):
            s["sections"].append(gen_sec(rng, n, depth - 1, budget, hostile, **kw))
        # siblings whose names differ in letter case only, with the same type: two different names
        if s["sections"] and rng.random() < 0.12:
            first = s["sections"][0]
            variant = first["name"].swapcase()
            if variant != first["name"] and variant.strip() not in {c["name"].strip() for c in s["sections"]}:
                twin = gen_sec(rng, variant, 0, [1], hostile, **kw)
                twin["type"] = first["type"]
                s["sections"].append(twin)
    if s["properties"] and rng.random() < 0.1:
        first = s["properties"][0]
        variant = first["name"].swapcase()
        if variant != first["name"] and variant.strip() not in {c["name"].strip() for c in s["properties"]}:
            s["properties"].append(gen_prop(rng, variant, hostile, **pkw))
    return s


def gen_doc(rng, max_nodes=25, depth=3, hostile=0.5, **kw):
    budget = [rng.randrange(1, max_nodes + 1)]
    falsy = kw.get("falsy", True)
    d = {"k": "doc", "id": new_id(rng),
         "author": rand_attr_text(rng, hostile * 0.6) if rng.random() < 0.4 else None,
         "version": None, "date": rand_date(rng) if rng.random() < 0.4 else None,
         "repository": ("file:///nonexistent/terms_%d.xml" % rng.randrange(2)) if rng.random() < 0.15 else None}
    v = rng.random()
    if v < 0.3:
        d["version"] = rng.choice(["1.0", "v2", rand_attr_text(rng, hostile * 0.6)])
    elif v < 0.4:
        d["version"] = rng.choice([1, 2.5, 42])
    elif falsy and v < 0.45:
        d["version"] = 0
    nt = min(rng.choice([1, 1, 2, 3]), budget[0])
    budget[0] -= nt
    d["sections"] = [gen_sec(rng, n, depth - 1, budget, hostile, **kw)
                     for n in unique_names(rng, nt, hostile * 0.6)]
    return d


# ---------------------------------------------------------------------------------------------
# builders (public API only)

def build_prop(spec, parent=None):
    import odml
    kw = {}
    for a in ("unit", "uncertainty", "reference", "definition", "dependency", "dependency_value",
              "value_origin", "val_cardinality"):
        if spec.get(a) is not None:
            kw[a] = spec[a]
    dtype = spec["dtype"]
    # every third scalar dtype (by name hash, so that a spec always builds the same way) is handed over as the DType member,
    # the other documented way of naming a type
    if isinstance(dtype, str) and hasattr(odml.DType, dtype) and sum(map(ord, spec["name"] or "")) % 3 == 0:
        dtype = getattr(odml.DType, dtype)
    values = list(spec["values"]) if spec["values"] else None
    if values and isinstance(dtype, str) and dtype.endswith("-tuple") and sum(map(ord, spec["name"] or "")) % 2 == 0 and \
            all(isinstance(v, (list, tuple)) and all(isinstance(e, str) and e == e.strip() and not set(e) & set(";,()[]")
                                                     for e in v) for v in values):
        # the other way of handing over n-tuples: the documented text form "(a;b)"
        values = ["(%s)" % ";".join(v) for v in values]
    if values and spec["dtype"] in ("date", "time", "datetime") and sum(map(ord, spec["name"] or "")) % 3 == 1:
        # the other way of handing over temporal values: the documented text form (what a file holds)
        values = [temporal_text(v) for v in values]
    if values and spec["dtype"] == "int" and sum(map(ord, spec["name"] or "")) % 3 == 2 and \
            all(isinstance(v, int) and not isinstance(v, bool) for v in values):
        values = [str(v) for v in values]      # whole numbers handed over as their text (what a file holds), exact at any size
    # the equivalent ways of saying the same thing (by name hash, so that a spec always builds the same way):
    # 0 everything in the constructor; 1 attached with append(); 2 text attributes assigned after construction;
    # 3 the cardinality through set_values_cardinality(), attached with append()
    form = sum(map(ord, spec["name"] or "")) % 4 if BUILD_FORMS else 0
    later = {}
    if form == 2:
        for a in ("unit", "reference", "definition", "value_origin", "dependency", "dependency_value"):
            if a in kw:
                later[a] = kw.pop(a)
    card = kw.pop("val_cardinality") if form == 3 and isinstance(kw.get("val_cardinality"), tuple) else None
    p = odml.Property(name=spec["name"], values=values, dtype=dtype, oid=spec.get("id"),
                      parent=parent if form in (0, 2) else None, **kw)
    for a, v in later.items():
        setattr(p, a, v)
    if card is not None:
        p.set_values_cardinality(card[0], card[1])
    if form in (1, 3) and parent is not None:
        parent.append(p)
    return p


BUILD_FORMS = True


def temporal_text(v):
    """The odML text form of a date / time / datetime object (years zero-padded to four digits, no sub-second
    part, no time zone: what the API keeps of such an object)."""
    if isinstance(v, dt.datetime):
        return "%04d-%02d-%02d %02d:%02d:%02d" % (v.year, v.month, v.day, v.hour, v.minute, v.second)
    if isinstance(v, dt.date):
        return "%04d-%02d-%02d" % (v.year, v.month, v.day)
    if isinstance(v, dt.time):
        return "%02d:%02d:%02d" % (v.hour, v.minute, v.second)
    return v


def build_sec(spec, parent=None):
    import odml
    kw = {}
    for a in ("definition", "reference", "repository", "link", "include", "sec_cardinality",
              "prop_cardinality"):
        if spec.get(a) is not None:
            kw[a] = spec[a]
    form = sum(map(ord, spec["name"] or "")) % 4 if BUILD_FORMS else 0
    later, cards = {}, {}
    if form == 2:
        for a in ("definition", "reference", "repository"):
            if a in kw:
                later[a] = kw.pop(a)
    if form == 3:
        for a in ("sec_cardinality", "prop_cardinality"):
            if isinstance(kw.get(a), tuple):
                cards[a] = kw.pop(a)
    s = odml.Section(name=spec["name"], type=spec["type"], oid=spec.get("id"),
                     parent=parent if form in (0, 2) else None, **kw)
    for a, v in later.items():
        setattr(s, a, v)
    if "sec_cardinality" in cards:
        s.set_sections_cardinality(*cards["sec_cardinality"])
    if "prop_cardinality" in cards:
        s.set_properties_cardinality(*cards["prop_cardinality"])
    if form in (1, 3) and parent is not None:
        parent.append(s)
    for p in spec.get("properties", []):
        build_prop(p, s)
    for c in spec.get("sections", []):
        build_sec(c, s)
    return s


def build_doc(spec):
    import odml
    kw = {a: spec[a] for a in ("author", "version", "date", "repository") if spec.get(a) is not None}
    if isinstance(kw.get("date"), dt.date) and kw["date"].day % 2 == 0:
        kw["date"] = temporal_text(kw["date"])      # every other Document date is handed over as text
    if len(spec.get("sections", [])) % 2 == 1:
        # the other way of stating the Document attributes: assigned after construction
        d = odml.Document(oid=spec.get("id"))
        for a, v in kw.items():
            setattr(d, a, v)
    else:
        d = odml.Document(oid=spec.get("id"), **kw)
    for c in spec.get("sections", []):
        build_sec(c, d)
    return d


def build(spec):
    return {"doc": build_doc, "sec": build_sec, "prop": build_prop}[spec["k"]](spec)


def count_nodes(spec):
    n = 1
    for c in spec.get("sections", []):
        n += count_nodes(c)
    n += len(spec.get("properties", []))
    return n


def _good_value(dtype):
    """A value list that a Property of this dtype accepts."""
    if dtype is None:
        return ["s"]
    if dtype.endswith("-tuple"):
        return [["x"] * int(dtype[:-6])]
    return {"int": [4, 5], "float": [2.5], "boolean": [False], "string": ["n"], "text": ["n\nm"], "url": ["http://y"],
            "person": ["C. D."], "date": [dt.date(2021, 2, 3)], "time": [dt.time(4, 5, 6)],
            "datetime": [dt.datetime(2021, 2, 3, 4, 5, 6)]}.get(str(dtype), ["s"])


def normal_form(spec):
    """Copy of a spec with values as the API stores them (temporal: no sub-second part, naive; int: no booleans)."""
    import copy
    spec = copy.deepcopy(spec)

    def fix(v):
        if isinstance(v, (dt.datetime, dt.time)):
            return v.replace(microsecond=0, tzinfo=None)
        return v

    def rec(n):
        if n.get("k") == "prop":
            n["values"] = [fix(v) for v in n["values"]]
            if n.get("dtype") == "int":        # booleans handed to an int Property are stored as 1 / 0
                n["values"] = [int(v) if isinstance(v, bool) else v for v in n["values"]]
        for c in n.get("sections", []):
            rec(c)
        for c in n.get("properties", []):
            rec(c)
    rec(spec)
    return spec
