"""pytest plugin: the repository's own test-suite as an additional workload under the universe invariants.

Loaded with  -p vlib.pytest_plugin  (PYTHONPATH = /verif).  Every Document / Section / Property the tests create is
registered (wrapper around the three constructors, installed from here: the repository is not edited); after the
call phase of every test - a quiescent point, no library call is on the stack - the closure of the registered
objects is walked and the tree (C03), naming (C04) and value (C05) predicates of vlib.hist are evaluated.  Tests
that assign private fields are recognised (audit of the test source is not attempted: the set is listed in
PRIVATE_STATE_TESTS with the reason, found by reading the witnesses) and not judged.

Results go to the JSON file named by $VERIF_PLUGIN_OUT."""
import json
import os

_created = []
_results = {"tests": 0, "objects": 0, "fact_evaluations": 0, "failing": []}

# tests of the repository that put objects into states the public API refuses, by private assignment or by
# calling helper functions below the API; the invariants do not apply to what they build
PRIVATE_STATE_TESTS = {
}


def _install():
    import odml
    from odml.doc import BaseDocument
    from odml.section import BaseSection
    from odml.property import BaseProperty
    for cls in (BaseDocument, BaseSection, BaseProperty):
        if getattr(cls, "_verif_registered", False):
            continue
        orig = cls.__init__

        def make(orig):
            def __init__(self, *a, **kw):
                res = orig(self, *a, **kw)
                _created.append(self)       # only objects whose construction succeeded exist for the API
                return res
            __init__.__wrapped__ = orig
            return __init__
        cls.__init__ = make(orig)
        cls._verif_registered = True


def pytest_configure(config):
    _install()


def pytest_runtest_setup(item):
    del _created[:]


def pytest_runtest_teardown(item, nextitem):
    from vlib import hist
    _results["tests"] += 1
    objs = [o for o in _created if hist.kind(o)]
    if not objs:
        return
    w = hist.World()
    w.objs.extend(objs)
    try:
        uni = hist.universe(w)
        failing = hist.facts(uni, run_queries=False)
    except Exception as exc:      # the monitor itself: never a verdict
        _results.setdefault("monitor_errors", []).append("%s: %r" % (item.nodeid, exc))
        del _created[:]
        return
    _results["objects"] += len(uni)
    _results["fact_evaluations"] += 1
    if failing:
        names = sorted({f for f, _ in failing})
        _results["failing"].append({"test": item.nodeid, "facts": names,
                                    "exempt": PRIVATE_STATE_TESTS.get(item.nodeid.split("::", 1)[-1])})
    del _created[:]


def pytest_sessionfinish(session, exitstatus):
    out = os.environ.get("VERIF_PLUGIN_OUT")
    if out:
        with open(out, "w") as f:
            json.dump(_results, f, indent=1)
