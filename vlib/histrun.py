"""Runs histories (lists of ops) under the monitors of vlib.hist and reports per property family.

family 'T' -> C03 (tree), 'N' -> C04 (names/ids), 'V' -> C05 (values), 'R' -> C06 (refused op changed
something).  Every history is abandoned at its first event of any family (states behind a violation
are unreachable for a correct implementation)."""
import datetime as dt
import re

from . import hist, core
from .model import enc, dec, kind

FAMILY_OF = {"C03": "T", "C04": "N", "C05": "V", "C06": "R"}
VALUE_INPUT_OPS = {"set_values", "pappend", "pextend", "pinsert", "psetitem", "create_property", "prop"}


def key_of(op, tags, effects):
    return "%s:%s/%s" % (op[0], "+".join(sorted(set(tags))) or "-", "+".join(effects))


def text_roundtrip_ok(p):
    """'converting a value to text and back gives the same value' for every stored value."""
    from odml import dtypes
    d = p.__dict__
    t = d.get("_dtype")
    for i, v in enumerate(d.get("_values") or []):
        try:
            text = p.value_str(i)
            if not isinstance(text, str):
                text = str(text)
            back = dtypes.get(text, t)
        except Exception:
            return False
        if hist.tval(back) != hist.tval(v):
            return False
    return True


class Runner(object):
    def __init__(self, rec, prop, skip_cells=()):
        self.rec = rec
        self.prop = prop
        self.family = FAMILY_OF[prop]
        self.skip_cells = set(skip_cells)

    def run(self, ops, label="random", report=True):
        """Execute a history.  Returns (events, executed_ops) where events is a list of
        (family, key, what)."""
        rec = self.rec
        world = hist.World()
        objs = hist.universe(world)
        facts = hist.facts(objs)
        events = []
        done = []
        for op in ops:
            objs_before = objs
            snap = hist.snapshot(objs_before)
            pre_vals = None
            try:
                res = hist.execute(world, op)
            except (hist.SkipOp, IndexError):
                # the op refers to an object that does not exist in this world (its creation was refused,
                # or the history was shrunk): skip
                rec.count("skipped_ops", op[0])
                continue
            done.append(op)
            tags = res["tags"]
            cell = "%s:%s" % (op[0], "+".join(sorted(set(tags))) or "-")
            objs = hist.universe(world)
            facts_after = hist.facts(objs)
            # value text round trip (edge-triggered like every fact)
            for o in objs:
                if kind(o) == "prop" and ("V:value-not-of-dtype", id(o)) not in facts_after \
                        and not text_roundtrip_ok(o):
                    facts_after.add(("V:value-text-roundtrip-differs", id(o)))
            new = facts_after - facts
            outcome = "raised:" + type(res["raised"]).__name__ if res["raised"] is not None else "returned"
            rec.evaluation()
            rec.count("cells", cell + " -> " + ("raised" if res["raised"] is not None else "returned"))
            rec.outcome(op[0] + ":" + outcome)
            rec.monitor("tree-invariant")
            rec.monitor("naming-invariant")
            rec.monitor("value-invariant")
            step_events = []
            if res.get("hang"):
                step_events.append(("T", key_of(op, tags, ["call-does-not-terminate"]),
                                    "%r did not return within the step budget" % (op,)))
            for fam in "TNV":
                names = hist.fact_names(new, fam + ":")
                if names:
                    step_events.append((fam, key_of(op, tags, names),
                                        "%s after %r (%s) [pre-state %s]" % (names, op, outcome, tags)))
            # refused operation must change nothing
            if res["raised"] is not None:
                rec.monitor("refused-unchanged")
                changed = hist.snapshot_diff(snap, hist.snapshot(objs), objs_before)
                # a raising constructor must not leave its object behind either
                if changed:
                    coarse = sorted({"structure" if c.split(".")[1] in ("parent", "sections", "properties")
                                     else "attributes" for c in changed})
                    if op[0] == "finalize":
                        coarse = ["earlier-links-stay-resolved"]
                    step_events.append(("R", key_of(op, tags, [type(res["raised"]).__name__] + coarse),
                                        "%r raised %r but changed %s [pre-state %s]" % (
                                            op, res["raised"], changed, tags)))
                    if op[0] in VALUE_INPUT_OPS | {"set_dtype"} and \
                            any(c in ("prop.dtype", "prop.values") for c in changed):
                        step_events.append(("V", key_of(op, tags, ["refused-but-" + "+".join(
                            c for c in changed if c in ("prop.dtype", "prop.values"))]),
                            "%r raised %r but changed %s" % (op, res["raised"], changed)))
                rec.count("refused", "%s -> %s" % (cell, "changed" if changed else "unchanged"))
            # per-op post-conditions
            step_events.extend(self.post(world, op, res, tags))
            facts = facts_after
            if step_events:
                events.extend(step_events)
                # a history ends at its first event; scripted cells go on after an event that belongs to another
                # property (facts are edge triggered), so that a follow-up step can still show this property's own
                own = any(f == self.family for f, _, _ in step_events)
                if own or not label.startswith("deck:") or (op[0] == "finalize" and any(f == "R" for f, _, _ in step_events)):
                    break
        for fam, key, what in events:
            if fam == self.family and report:
                rec.violation(key, what, {"ops": done, "label": label})
            elif fam != self.family:
                rec.count("events_of_other_properties", fam)
        if not events:
            rec.state(core.h(self.shape(world)))
        return events, done

    def shape(self, world):
        """Abstract shape of the final universe (ids abstracted) for distinct-state counting."""
        out = []
        for o in hist.universe(world):
            if o.__dict__.get("_parent") is None:
                out.append(self._shape(o, 0))
        return sorted(map(repr, out))

    def _shape(self, o, depth):
        if depth > 50:
            return "deep"
        secs, props = hist.raw_children(o)
        d = o.__dict__
        if kind(o) == "prop":
            return ("p", d.get("_name") if d.get("_name") != d.get("_id") else "<id>", d.get("_dtype"),
                    len(d.get("_values") or []))
        return (kind(o), d.get("_name") if d.get("_name") != d.get("_id") else "<id>",
                tuple(self._shape(c, depth + 1) for c in secs), tuple(self._shape(c, depth + 1) for c in props))

    def post(self, world, op, res, tags):
        ev = []
        name = op[0]
        raised = res["raised"]
        if name in ("sec", "prop") and raised is None and res["new"] is not None:
            o = world.objs[res["new"]]
            extra = op[4] if name == "sec" else op[5]
            oid = (extra or {}).get("oid")
            if o is not None and oid is not None and not hist.canonical_id(oid) and not hist._parses(oid) \
                    and o.id == oid:
                ev.append(("N", key_of(op, tags, ["malformed-oid-kept"]), "constructor kept id %r" % oid))
            if o is not None and oid is not None and hist.canonical_id(oid) and o.id != oid:
                ev.append(("N", key_of(op, tags, ["valid-oid-replaced"]), "constructor replaced valid id"))
            if o is not None and not op[1] and o.name != o.id:
                ev.append(("N", key_of(op, tags, ["empty-name-not-id"]), "name %r" % o.name))
        if name == "new_id":
            if "oid-malformed" in tags and raised is None:
                ev.append(("N", key_of(op, tags, ["malformed-oid-accepted"]), "new_id(%r) did not raise" % op[2]))
            if "oid-canonical" in tags and raised is None and world.get(op[1]).id != op[2]:
                ev.append(("N", key_of(op, tags, ["valid-oid-not-assigned"]), "id is %r" % world.get(op[1]).id))
            if tags == ["fresh"] and raised is not None:
                ev.append(("N", key_of(op, tags, ["fresh-id-refused"]), repr(raised)))
        if name == "rename" and "to-empty" in tags and raised is None:
            o = world.get(op[1])
            if o.name != o.id:
                ev.append(("N", key_of(op, tags, ["cleared-name-not-id"]), "name is %r" % o.name))
        if name in VALUE_INPUT_OPS and raised is not None:
            ok_types = (ValueError,)
            if name == "psetitem" and "index-out-of-range" in tags:
                ok_types = (ValueError, IndexError)
            structural = name in ("prop", "create_property") and (
                "name-clash" in tags or "invalid-cardinality" in tags or
                any(t.startswith("parent-") and t != "parent-sec" for t in tags) or
                any(t.startswith("dest-") and t != "dest-sec" for t in tags))
            if not isinstance(raised, ok_types) and not structural:
                ev.append(("V", key_of(op, tags, ["refused-with-" + type(raised).__name__]),
                           "%r raised %r instead of ValueError" % (op, raised)))
        if name in ("set_values", "pextend") and raised is None:
            # n-tuple Properties: an input item of another arity cannot be converted; it must be refused, not dropped
            x = world.get(op[1])
            m = re.match(r"^(\d+)-tuple$", str(getattr(x, "__dict__", {}).get("_dtype")))
            inp = dec(op[2])
            if m and isinstance(inp, list) and inp and all(isinstance(i, str) and re.match(r"^\([^()]*\)$", i.strip()) for i in inp):
                arities = [i.count(";") + 1 for i in inp]
                if any(a != int(m.group(1)) for a in arities):
                    ev.append(("V", key_of(op, tags, ["tuple-of-other-arity-not-refused"]),
                               "%r returned although %r holds an item that is no %s" % (op[0], inp, m.group(0))))
        if name == "set_dtype" and raised is not None and not isinstance(raised, (ValueError, AttributeError)):
            ev.append(("V", key_of(op, tags, ["refused-with-" + type(raised).__name__]), repr(raised)))
        if name == "reassign_values" and raised is not None:
            ev.append(("V", key_of(op, tags, ["own-values-refused-" + type(raised).__name__]),
                       "assigning a Property its own values raised %r" % raised))
        return ev


# ---------------------------------------------------------------------------------------------
# workloads

BASE = [
    ["doc"],                                   # 0  D
    ["sec", "a", "t", 0, {}],                  # 1  a   in D
    ["sec", "b", "t", 0, {}],                  # 2  b   in D
    ["sec", "c", "t", 1, {}],                  # 3  c   in a
    ["sec", "x", "t", None, {}],               # 4  x   detached
    ["sec", "c", "t2", None, {}],              # 5  c'  detached, clashes with 3 inside a
    ["prop", "p", enc([1, 2]), "int", 1, {}],  # 6  p   in a
    ["prop", "q", enc(["v"]), "string", None, {}],   # 7  q detached
    ["prop", "p", enc([7]), "int", None, {}],  # 8  p'  detached, clashes with 6 inside a
    ["doc"],                                   # 9  D2
    ["sec", "a", "t", 9, {}],                  # 10 a2  in D2
    ["sec", "d", "t", 3, {}],                  # 11 d   in c (grandchild of a)
    ["prop", "r", enc([]), None, 2, {}],       # 12 r   in b (empty, untyped)
    ["sec", "b", "t", 1, {}],                  # 13 b'  in a (same name as 2, other container)
]
D, A, B, C, X, C2, P, Q, P2, D2, A2, DD, R, B2 = range(14)
LIT_S, LIT_I, LIT_N = {"lit": "text"}, {"lit": 5}, {"lit": None}
BAD_IDS = ["", "zz", "1234", "6ba7b810-9dad-11d1-80b4-00c04fd430c", "g0000000-0000-4000-8000-000000000000",
           "6ba7b810-9dad-41d1-80b4-00c04fd430c8\n", "6ba7b810-9dad-41d1-80b4-00c04fd430c8 ", " 6ba7b810-9dad-41d1-80b4-00c04fd430c8",
           "6ba7b810-9dad-41d1-80b4-00c04fd430c8-0001", "6ba7b810-9dad-41d1-80b4-00c04fd430c86ba7b810-9dad-41d1-80b4-00c04fd430c8"]
ODD_IDS = ["6BA7B810-9DAD-41D1-80B4-00C04FD430C8", "{6ba7b810-9dad-41d1-80b4-00c04fd430c8}",
           "6ba7b8109dad41d180b400c04fd430c8", "urn:uuid:6ba7b810-9dad-41d1-80b4-00c04fd430c8"]
GOOD_ID = "6ba7b810-9dad-41d1-80b4-00c04fd430c8"


def deck():
    """One scripted micro-history per (operation x pre-state class) cell."""
    t = []

    def cell(name, *ops):
        t.append((name, BASE + [list(o) for o in ops]))
    for cont, cn in ((B, "sec"), (D, "doc")):
        cell("append/%s/detached" % cn, ["append", cont, X])
        cell("append/%s/attached-elsewhere" % cn, ["append", cont, C])
        cell("append/%s/attached-elsewhere-doc2" % cn, ["append", cont, A2] if cont != D else ["append", D2, B])
        cell("append/%s/lit" % cn, ["append", cont, LIT_S])
        cell("append/%s/list" % cn, ["append", cont, [X]])
        cell("append/%s/document" % cn, ["append", cont, D2])
        cell("insert/%s/detached" % cn, ["insert", cont, 0, X])
        cell("insert/%s/attached-elsewhere" % cn, ["insert", cont, 0, C])
        cell("insert/%s/lit" % cn, ["insert", cont, 0, LIT_I])
        cell("insert/%s/beyond" % cn, ["insert", cont, 99, X])
        cell("insert/%s/negative" % cn, ["insert", cont, -1, X])
        cell("extend/%s/ok" % cn, ["extend", cont, [X]])
        cell("extend/%s/dup-inside" % cn, ["sec", "x", "t", None, {}], ["extend", cont, [X, 14]])
        cell("extend/%s/same-twice" % cn, ["extend", cont, [X, X]])
        cell("extend/%s/attached-elsewhere" % cn, ["extend", cont, [X, C]])
        cell("extend/%s/second-bad-type" % cn, ["extend", cont, [X, LIT_S]])
        cell("extend/%s/not-iterable" % cn, ["extend", cont, LIT_I])
        cell("extend/%s/string" % cn, ["extend", cont, LIT_S])
        cell("create_section/%s/ok" % cn, ["create_section", cont, "n", "t"])
        cell("create_section/%s/noname" % cn, ["create_section", cont, None, "t"])
    cell("append/sec/attached-here", ["append", A, C])
    cell("append/doc/attached-here", ["append", D, A])
    cell("append/sec/clash", ["append", A, C2])
    cell("append/doc/clash", ["append", D, A2])
    cell("append/sec/self", ["append", A, A])
    cell("append/sec/ancestor", ["append", C, A])
    cell("append/sec/ancestor-deep", ["append", DD, A])
    cell("append/sec/prop-detached", ["append", B, Q])
    cell("append/sec/prop-attached-elsewhere", ["append", B, P])
    cell("append/sec/prop-attached-here", ["append", A, P])
    cell("append/sec/prop-clash", ["append", A, P2])
    cell("append/doc/prop", ["append", D, Q])
    cell("insert/sec/clash", ["insert", A, 0, C2])
    cell("insert/doc/clash", ["insert", D, 0, A2])
    cell("insert/sec/attached-here", ["insert", A, 0, C])
    cell("insert/sec/self", ["insert", A, 0, A])
    cell("insert/sec/ancestor", ["insert", C, 0, A])
    cell("insert/sec/prop-detached", ["insert", B, 0, Q])
    cell("insert/sec/prop-attached-elsewhere", ["insert", B, 0, P])
    cell("insert/sec/prop-clash", ["insert", A, 0, P2])
    cell("insert/doc/prop", ["insert", D, 0, Q])
    cell("extend/sec/clash", ["extend", A, [X, C2]])
    cell("extend/sec/props", ["extend", B, [Q, X]])
    cell("extend/sec/prop-clash-second", ["extend", A, [Q, P2]])
    cell("extend/sec/prop-dup-inside", ["prop", "q", enc([1]), "int", None, {}], ["extend", B, [Q, 14]])
    cell("extend/doc/prop", ["extend", D, [X, Q]])
    cell("extend/sec/ancestor", ["extend", C, [X, A]])
    cell("extend/sec/generator-like", ["extend", B, [C2, X]])
    cell("remove/sec/child", ["remove", A, C])
    cell("remove/sec/prop-child", ["remove", A, P])
    cell("remove/sec/not-child", ["remove", A, X])
    cell("remove/sec/child-of-other", ["remove", B, C])
    cell("remove/doc/child", ["remove", D, A])
    cell("remove/doc/not-child", ["remove", D, C])
    cell("remove/doc/prop", ["remove", D, P])
    cell("remove/sec/lit", ["remove", A, LIT_S])
    for obj, on in ((C, "sec"), (P, "prop")):
        cell("parent/%s/to-other" % on, ["set_parent", obj, B])
        cell("parent/%s/to-none" % on, ["set_parent", obj, None])
        cell("parent/%s/to-current" % on, ["set_parent", obj, A])
        cell("parent/%s/to-lit" % on, ["set_parent", obj, LIT_S])
        cell("parent/%s/to-prop" % on, ["set_parent", obj, Q])
    cell("parent/sec/detached-to-none", ["set_parent", X, None])
    cell("parent/prop/detached-to-none", ["set_parent", Q, None])
    cell("parent/sec/detached-to-sec", ["set_parent", X, B])
    cell("parent/sec/to-doc", ["set_parent", C, D])
    cell("parent/sec/to-other-doc", ["set_parent", C, D2])
    cell("parent/prop/to-doc", ["set_parent", P, D])
    cell("parent/sec/clash-at-destination", ["set_parent", B2, D])
    cell("parent/sec/detached-clash", ["set_parent", C2, A])
    cell("parent/prop/clash-at-destination", ["prop", "p", enc([3]), "int", B, {}], ["set_parent", 14, A])
    cell("parent/prop/detached-clash", ["set_parent", P2, A])
    cell("parent/sec/into-own-child", ["set_parent", A, C])
    cell("parent/sec/into-own-grandchild", ["set_parent", A, DD])
    cell("parent/sec/to-self", ["set_parent", A, A])
    cell("parent/sec/detached-to-self", ["set_parent", X, X])
    for lst, good, clash, other in (("sections", X, C2, Q), ("properties", Q, P2, X)):
        cell("setitem/%s/detached" % lst, ["setitem", A, lst, 0, good])
        cell("setitem/%s/replaces-same-name" % lst, ["setitem", A, lst, 0, clash])
        cell("setitem/%s/wrong-type" % lst, ["setitem", A, lst, 0, other])
        cell("setitem/%s/lit" % lst, ["setitem", A, lst, 0, LIT_S])
        cell("setitem/%s/out-of-range" % lst, ["setitem", A, lst, 7, good])
        cell("setitem/%s/negative" % lst, ["setitem", A, lst, -1, good])
    cell("setitem/sections/clash-with-sibling", ["sec", "e", "t", A, {}], ["sec", "e", "t", None, {}],
         ["setitem", A, "sections", 0, 15])
    cell("setitem/properties/clash-with-sibling", ["prop", "z", enc([1]), "int", A, {}],
         ["prop", "z", enc([2]), "int", None, {}], ["setitem", A, "properties", 0, 15])
    cell("setitem/sections/attached-elsewhere", ["setitem", D, "sections", 1, C])
    # deep trees: a chain of 140 nested Sections; making its top a child of its bottom must be refused by every route
    N0 = len(BASE)
    chain = [["sec", "deep0", "t", D, {}]] + [["sec", "deep%d" % k, "t", N0 + k - 1, {}] for k in range(1, 140)]
    top, bottom, mid = N0, N0 + 139, N0 + 70
    cell("deep-chain/append-cycle", *(chain + [["append", bottom, top]]))
    cell("deep-chain/insert-cycle", *(chain + [["insert", bottom, 0, top]]))
    cell("deep-chain/set_parent-cycle", *(chain + [["set_parent", top, bottom]]))
    cell("deep-chain/extend-cycle", *(chain + [["extend", bottom, [X, top]]]))
    cell("deep-chain/setitem-cycle", *(chain + [["sec", "leaf", "t", bottom, {}], ["setitem", bottom, "sections", 0, top]]))
    cell("deep-chain/mid-cycle", *(chain + [["append", bottom, mid], ["set_parent", mid, bottom]]))
    cell("deep-chain/move-subtree", *(chain + [["append", D, mid], ["clone", top, True, False]]))
    # strict merge of text Properties where the first source value is known to dest and a later one would change the
    # inferred type (a text with a line break): refused before anything is filled in
    cell("merge/prop/strict-later-value-of-other-inferred-type",
         ["prop", "q", enc(["v", "l1\nl2"]), "string", None, {"unit": "u", "definition": "d"}], ["merge", Q, len(BASE), True])
    cell("merge/sec/strict-later-value-of-other-inferred-type", ["prop", "s1", enc(["v"]), "string", B, {}],
         ["sec", "b", "t", None, {"definition": "src def"}], ["prop", "s1", enc(["v", "l1\nl2"]), "string", len(BASE) + 1, {"unit": "u"}],
         ["merge", B, len(BASE) + 1, True])
    # an unnamed object (its id is its name), a copy with the same id next to it, then the copy's name is cleared:
    # the fall-back name (the id) is taken
    N1 = len(BASE)
    cell("clear-name/sibling-carries-the-id/sec", ["sec", None, "t", A, {}], ["clone", N1, True, True], ["rename", N1 + 1, enc("other")],
         ["append", A, N1 + 1], ["rename", N1 + 1, enc(None)])
    cell("clear-name/sibling-carries-the-id/prop", ["prop", None, enc([1]), "int", A, {}], ["clone", N1, True, True],
         ["rename", N1 + 1, enc("other")], ["append", A, N1 + 1], ["rename", N1 + 1, enc("")])
    cell("clear-name/sibling-named-like-the-id", ["sec", "tmp", "t", A, {"oid": GOOD_ID}], ["sec", GOOD_ID, "t", A, {}], ["rename", N1, enc(None)])
    # a refused operation followed by a rename to a sibling's name (the refusal must not have detached anything)
    cell("refused-then-renamed/remove-not-a-child", ["remove", B, C], ["rename", C, enc("b")])
    cell("refused-then-renamed/prop-remove-not-a-child", ["prop", "k", enc([1]), "int", A, {}], ["remove", B, P], ["rename", P, enc("k")])
    cell("refused-then-renamed/append-clash", ["append", D, B2], ["rename", B2, enc("c")])
    cell("refused-then-renamed/insert-clash", ["insert", A, 0, C2], ["rename", C, enc("b")])
    # a Property created inside a Section with a dependency on a typed sibling and a value that is no text form of that type
    for dv in ("high", "2", 2, "", None):
        cell("ctor/prop/dependency-on-typed-sibling", ["prop", "dep", enc([1]), "int", A, {"dependency": "p", "dependency_value": dv}])
        cell("create_property/then-dependency", ["create_property", A, "dep2", enc([1]), "int"])
    # n-tuple values with an empty element (legal) inside what gets cloned by clone / merge / link
    for tv in ("(1;)", "(;2)", "(;)"):
        mk = ["prop", "tp", enc([tv, "(3;4)"]), "2-tuple", A, {}]
        cell("tuple-empty-element/clone", mk, ["clone", A, True, False], ["clone", 14, True, True])
        cell("tuple-empty-element/merge", mk, ["merge", B, A, False])
        cell("tuple-empty-element/merge-strict", mk, ["merge", B, A, True])
        cell("tuple-empty-element/link", mk, ["set_link", B, A])
        cell("tuple-empty-element/reassign", mk, ["reassign_values", 14])
    # an object that was moved in (by index assignment, insert, append, extend, parent=) and is then renamed to a
    # sibling's name: the new container's name check must see it
    cell("moved-then-renamed/setitem", ["setitem", D, "sections", 1, C], ["rename", C, enc("a")])
    cell("moved-then-renamed/insert", ["insert", D, 0, C], ["rename", C, enc("b")])
    cell("moved-then-renamed/append", ["append", D, C], ["rename", C, enc("a")])
    cell("moved-then-renamed/extend", ["extend", D, [C]], ["rename", C, enc("b")])
    cell("moved-then-renamed/set_parent", ["set_parent", C, D], ["rename", C, enc("a")])
    cell("moved-then-renamed/prop-setitem", ["prop", "k", enc([1]), "int", B, {}], ["prop", "k2", enc([1]), "int", B, {}],
         ["setitem", B, "properties", 1, P], ["rename", P, enc("k")])
    cell("moved-then-renamed/prop-insert", ["prop", "k", enc([1]), "int", B, {}], ["insert", B, 0, P], ["rename", P, enc("k")])
    cell("setitem/sections/attached-here", ["setitem", A, "sections", 0, B2])
    cell("setitem/sections/itself", ["setitem", A, "sections", 0, C])
    cell("setitem/sections/ancestor", ["setitem", C, "sections", 0, A])
    cell("setitem/sections/doc-level", ["setitem", D, "sections", 0, X])
    cell("setitem/sections/doc-clash", ["sec", "b", "t", None, {}], ["setitem", D, "sections", 0, 14])
    cell("setitem/properties/attached-elsewhere", ["prop", "k", enc([1]), "int", B, {}],
         ["setitem", A, "properties", 0, 14])
    for i in (-2, -1, 0, 1, 2, 3, 4):
        cell("reorder/sec/%d" % i, ["reorder", C, i])
        cell("reorder/sec-first-of-two/%d" % i, ["reorder", A, i])
        cell("reorder/sec-last-of-two/%d" % i, ["reorder", B, i])
        cell("reorder/prop/%d" % i, ["prop", "z", enc([1]), "int", A, {}], ["reorder", P, i])
        cell("reorder/prop-last/%d" % i, ["prop", "z", enc([1]), "int", A, {}], ["reorder", 14, i])
    for bad_index in ("0", 1.0, None, [0]):
        cell("reorder/sec/index-not-an-integer", ["reorder", C, enc(bad_index)])
        cell("reorder/prop/index-not-an-integer", ["prop", "z", enc([1]), "int", A, {}], ["reorder", P, enc(bad_index)])
    for bad_index in ("0", 1.0, None, [0]):
        cell("insert/sec/index-not-an-integer", ["insert", B, enc(bad_index), C])
        cell("insert/sec/index-not-an-integer-detached", ["insert", B, enc(bad_index), X])
        cell("insert/doc/index-not-an-integer", ["insert", D, enc(bad_index), C])
        cell("insert/sec/prop-index-not-an-integer", ["insert", B, enc(bad_index), P])
    cell("setitem/sections/by-object", ["setitem", D, "sections", {"$obj": B}, X])
    cell("setitem/sections/by-object-attached-elsewhere", ["setitem", D, "sections", {"$obj": B}, C])
    cell("setitem/sections/by-object-not-a-child", ["setitem", D, "sections", {"$obj": C}, X])
    cell("setitem/properties/by-object", ["setitem", A, "properties", {"$obj": P}, Q])
    cell("setitem/sections/by-slice", ["sec", "x1", "t", X, {}], ["setitem", D, "sections", {"$slice": [0, 1]}, X])
    cell("setitem/sections/by-slice-attached-elsewhere", ["setitem", D, "sections", {"$slice": [0, 1]}, C])
    cell("setitem/properties/by-slice", ["setitem", A, "properties", {"$slice": [0, 1]}, Q])
    cell("setitem/sections/index-not-an-integer", ["setitem", D, "sections", enc(1.0), X])
    cell("setitem/sections/by-name", ["setitem", D, "sections", "b", X])
    cell("setitem/sections/by-name-missing", ["setitem", D, "sections", "nope", X])
    cell("setitem/sections/by-name-clash", ["sec", "a", "t2", None, {}], ["setitem", D, "sections", "b", 14])
    cell("setitem/properties/by-name", ["setitem", A, "properties", "p", Q])
    cell("reorder/sec/detached", ["reorder", X, 0])
    cell("reorder/prop/detached", ["reorder", Q, 0])
    for obj, on, clash in ((C, "sec", "b"), (P, "prop", "z")):
        pre = [["prop", "z", enc([1]), "int", A, {}]] if on == "prop" else []
        cell("rename/%s/fresh" % on, *(pre + [["rename", obj, enc("new")]]))
        cell("rename/%s/existing" % on, *(pre + [["rename", obj, enc(clash)]]))
        cell("rename/%s/own" % on, *(pre + [["rename", obj, enc("c" if on == "sec" else "p")]]))
        cell("rename/%s/none" % on, *(pre + [["rename", obj, enc(None)]]))
        cell("rename/%s/empty" % on, *(pre + [["rename", obj, enc("")]]))
        for padded in (clash + " ", " " + clash, clash + "\t", " ", ("c" if on == "sec" else "p") + " ", clash.upper()):
            cell("rename/%s/blank-padded-or-case-variant" % on, *(pre + [["rename", obj, enc(padded)]]))
    cell("rename/sec/detached-any", ["rename", X, enc("a")])
    cell("rename/sec/doc-level-existing", ["rename", A, enc("b")])
    for obj, on in ((A, "sec"), (P, "prop"), (D, "doc")):
        for children in (True, False):
            for keep in (True, False):
                if on == "prop" and not children:
                    continue
                cell("clone/%s/children=%s/keep=%s" % (on, children, keep), ["clone", obj, children, keep],
                     ["append", B, 14] if on != "doc" else ["append", 14, X])
    # an object is handed to a container that does not hold it but holds a deep-equal twin of it (a copy):
    # the twin is another object
    for keep in (True, False):
        # (followed by a rename to a sibling's name, which is refused as long as the object knows its parent)
        cell("remove/twin-of-child/sec", ["clone", A, True, keep], ["remove", len(BASE), C], ["rename", C, enc("b")])
        cell("remove/twin-of-child/prop", ["prop", "k", enc([1]), "int", A, {}], ["clone", A, True, keep],
             ["remove", len(BASE) + 1, P], ["rename", P, enc("k")])
        cell("remove/twin-of-child/doc", ["clone", D, True, keep], ["remove", len(BASE), A], ["rename", A, enc("b")])
        cell("remove/twin-of-child/original-from-copy", ["clone", A, True, keep], ["append", D2, len(BASE)], ["remove", A, len(BASE) + 0])
        cell("setitem/twin-of-child/sec", ["clone", A, True, keep], ["setitem", len(BASE), "sections", {"$obj": C}, X])
        cell("setitem/twin-of-child/prop", ["clone", A, True, keep], ["setitem", len(BASE), "properties", {"$obj": P}, Q])
    cell("clone/sec/attach-to-own-parent", ["clone", C, True, False], ["append", A, 14])
    cell("clone/sec/attach-into-original", ["clone", A, True, False], ["append", A, 14])
    for strict in (True, False):
        cell("merge/sec/disjoint/%s" % strict, ["merge", B, A, strict])
        cell("merge/sec/self/%s" % strict, ["merge", A, A, strict])
        cell("merge/sec/child-into-parent/%s" % strict, ["merge", A, C, strict])
        cell("merge/sec/parent-into-child/%s" % strict, ["merge", C, A, strict])
        cell("merge/sec/overlap/%s" % strict, ["merge", A, A2, strict], ["merge", A2, A, strict])
        cell("merge/sec/with-prop/%s" % strict, ["merge", A, P, strict])
        cell("merge/sec/lit/%s" % strict, ["merge", A, LIT_S, strict])
        cell("merge/prop/ok/%s" % strict, ["merge", P, P2, strict])
        cell("merge/prop/other-dtype/%s" % strict, ["merge", P, Q, strict])
        cell("merge/prop/section/%s" % strict, ["merge", P, A, strict])
        cell("merge/prop/self/%s" % strict, ["merge", P, P, strict])
    for strict in (True, False):
        # the refusal comes late: earlier children of the source are mergeable, a later value is not convertible
        cell("merge/sec/late-unconvertible-value/%s" % strict, ["prop", "p", enc(["5", "x"]), "string", B, {}],
             ["merge", A, B, strict])
        cell("merge/prop/late-unconvertible-value/%s" % strict, ["prop", "p", enc(["5", "6", "x"]), "string", None, {}],
             ["merge", P, 14, strict])
    for strict in (True, False):
        # the destination Property has a dtype but no values yet; the source values do not convert
        cell("merge/sec/into-empty-typed-prop/%s" % strict, ["prop", "e", enc(None), "int", B, {}],
             ["sec", "src", "t", None, {"definition": "src def", "reference": "src ref"}],
             ["prop", "a0", enc([1]), "int", len(BASE) + 1, {}],
             ["prop", "e", enc(["many"]), "string", len(BASE) + 1, {"unit": "u", "definition": "d"}],
             ["merge", B, len(BASE) + 1, strict])
        cell("merge/prop/into-empty-typed-prop/%s" % strict, ["prop", "e", enc(None), "int", None, {}],
             ["prop", "e", enc(["many"]), "string", None, {"unit": "u", "definition": "d"}],
             ["merge", len(BASE), len(BASE) + 1, strict])
        cell("link/into-empty-typed-prop/%s" % strict, ["prop", "e", enc(None), "int", B, {}],
             ["prop", "a0", enc([1]), "int", A, {}], ["prop", "e", enc(["many"]), "string", A, {"unit": "u"}],
             ["set_link", B, A])
    cell("link/to-sibling", ["set_link", B, A], ["clean", D], ["finalize", D], ["clean", D])
    cell("link/to-nested", ["set_link", B, C], ["clean", B])
    cell("link/unresolvable", ["set_link", B, "/nowhere"])
    cell("link/detached", ["set_link", X, "/a"], ["append", D, X], ["finalize", D], ["clean", D])
    cell("link/to-none", ["set_link", B, A], ["set_link", B, None])
    cell("link/relink", ["set_link", B, A], ["set_link", B, C])
    cell("link/relink-unresolvable", ["set_link", B, A], ["set_link", B, "/nowhere"])
    cell("link/then-edit", ["set_link", B, A], ["rename", C, enc("cc")], ["clean", D], ["finalize", D])
    cell("include/unavailable-attached", ["set_include", B, "file:///nonexistent/res.xml#/a"])
    cell("include/unavailable-attached-no-path", ["set_include", B, "file:///nonexistent/res.xml"])
    cell("include/unavailable-detached", ["set_include", X, "file:///nonexistent/res.xml#/a"], ["append", D, X],
         ["finalize", D])
    cell("include/with-link-set", ["set_link", B, A], ["set_include", B, "file:///nonexistent/res.xml#/a"])
    cell("include/to-none", ["set_include", B, None])
    cell("finalize/clean-plain", ["finalize", D], ["clean", D], ["clean", A], ["clean", P])
    for obj, on in ((A, "sec"), (P, "prop"), (D, "doc")):
        cell("new_id/%s/fresh" % on, ["new_id", obj, None])
        cell("new_id/%s/valid" % on, ["new_id", obj, GOOD_ID])
        for bad in BAD_IDS:
            cell("new_id/%s/malformed" % on, ["new_id", obj, bad])
        for odd in ODD_IDS:
            cell("new_id/%s/noncanonical" % on, ["new_id", obj, odd])
    # an unnamed object (its id is its name) gets a new id while a sibling carries that id text as its name
    for oid in [GOOD_ID] + ODD_IDS[:2]:
        cell("new_id/sec/unnamed-beside-sibling-named-like-the-id", ["sec", None, "t", A, {}], ["sec", GOOD_ID, "t", A, {}],
             ["new_id", len(BASE), oid])
        cell("new_id/prop/unnamed-beside-sibling-named-like-the-id", ["prop", None, enc([1]), "int", A, {}],
             ["prop", GOOD_ID, enc([1]), "int", A, {}], ["new_id", len(BASE), oid])
        cell("new_id/sec/two-unnamed-siblings-same-id", ["sec", None, "t", A, {}], ["sec", None, "t", A, {}],
             ["new_id", len(BASE), oid], ["new_id", len(BASE) + 1, oid])
    for oid in [GOOD_ID] + BAD_IDS + ODD_IDS:
        cell("ctor/doc/oid", ["doc", {"oid": oid}])
        cell("ctor/sec/oid", ["sec", "n", "t", B, {"oid": oid}])
        cell("ctor/prop/oid", ["prop", "n", enc([1]), "int", B, {"oid": oid}])
    cell("ctor/sec/noname", ["sec", None, "t", B, {}], ["sec", "", "t", B, {}])
    cell("ctor/prop/noname", ["prop", None, enc([1]), "int", B, {}], ["prop", "", enc([1]), "int", B, {}])
    cell("ctor/sec/clash", ["sec", "c", "t", A, {}])
    cell("ctor/sec/doc-clash", ["sec", "a", "t", D, {}])
    cell("ctor/prop/clash", ["prop", "p", enc([1]), "int", A, {}])
    cell("ctor/sec/parent-prop", ["sec", "n", "t", P, {}])
    cell("ctor/sec/parent-lit", ["sec", "n", "t", LIT_S, {}])
    cell("ctor/prop/parent-doc", ["prop", "n", enc([1]), "int", D, {}])
    cell("ctor/prop/parent-lit", ["prop", "n", enc([1]), "int", LIT_I, {}])
    for bad in ("bad", (3, 1), -1, (1, 2, 3), 1.5, (-1, 2), ("a", 1), ("1", "2"), (None, "2"), ["1", "3"], (1.0, 2.0), (True, 2)):
        cell("ctor/sec/invalid-sec-cardinality", ["sec", "n", "t", B, {"sec_cardinality": enc(bad)}])
        cell("ctor/sec/invalid-prop-cardinality", ["sec", "n", "t", D, {"prop_cardinality": enc(bad)}])
        cell("ctor/prop/invalid-val-cardinality", ["prop", "n", enc([1]), "int", B, {"val_cardinality": enc(bad)}])
        cell("ctor/sec/detached-invalid-cardinality", ["sec", "n", "t", None, {"sec_cardinality": enc(bad)}])
        cell("set_card/sec/invalid", ["set_card", A, "sec_cardinality", enc((1, 2))],
             ["set_card", A, "sec_cardinality", enc(bad)])
        cell("set_card/prop/invalid", ["set_card", P, "val_cardinality", enc((1, 2))],
             ["set_card", P, "val_cardinality", enc(bad)])
        cell("set_card/sec-props/invalid", ["set_card", A, "prop_cardinality", enc(bad)])
    for exact in ((1, 1), (2, 2), (3, 3), (0, 1), (1, 2)):
        # valid cardinalities, "exactly n" in particular, whether met or not by the present children / values
        cell("set_card/sec/valid", ["set_card", A, "sec_cardinality", enc(exact)])
        cell("set_card/sec-props/valid", ["set_card", A, "prop_cardinality", enc(exact)])
        cell("set_card/prop/valid", ["set_card", P, "val_cardinality", enc(exact)], ["set_values", P, enc([4, 5])])
        cell("set_card2/valid", ["set_card2", A, "set_sections_cardinality", exact[0], exact[1]],
             ["set_card2", A, "set_properties_cardinality", exact[0], exact[1]],
             ["set_card2", P, "set_values_cardinality", exact[0], exact[1]])
    cell("set_card2/invalid", ["set_card2", A, "set_sections_cardinality", 3, 1],
         ["set_card2", A, "set_properties_cardinality", -1, None],
         ["set_card2", P, "set_values_cardinality", 2, 1])
    # values that are all empty text / None (the value-dependent validation rules run last in the constructor, after
    # the new Property has been attached)
    for vals in ([""], ["", ""], [None], [" "], ["", "a"]):
        for dtype in (None, "string", "text"):
            cell("ctor/prop/blank-values-attached", ["prop", "blank", enc(vals), dtype, B, {}])
    for card in ((1, 1), (2, 2), (0, 1), (3, 3)):
        cell("ctor/prop/exact-cardinality-attached", ["prop", "n", enc([1]), "int", B, {"val_cardinality": enc(card)}])
        cell("ctor/sec/exact-cardinality-attached", ["sec", "n", "t", B, {"sec_cardinality": enc(card), "prop_cardinality": enc(card)}])
    cell("ctor/prop/unconvertible-attached", ["prop", "n", enc(["x"]), "int", B, {}])
    cell("ctor/prop/unconvertible-mixed", ["prop", "n", enc([1, "x"]), None, B, {}])
    cell("create_property/clash", ["create_property", A, "p", enc([1]), "int"])
    cell("create_property/unconvertible", ["create_property", A, "n", enc(["x"]), "int"])
    cell("create_property/ok", ["create_property", A, "n", enc([1.5]), None])
    cell("date/invalid", ["set_attr", D, "date", enc("not a date")], ["set_attr", D, "date", enc("2020-13-45")])
    for bad in ("not a date", "2021-02-29", "2020-13-45", dt.datetime(2020, 1, 2, 3, 4, 5), 20200102, ""):
        cell("date/invalid-after-valid", ["set_attr", D, "date", enc(dt.date(2020, 2, 29))], ["set_attr", D, "date", enc(bad)])
    cell("ctor/doc/date", ["doc", {"date": enc("2020-13-45")}], ["doc", {"date": enc(dt.date(2020, 2, 29)), "version": enc(1.5)}])
    # a Section whose name is taken by a child of ANOTHER type (index 14 = the Section created by the first op)
    N = len(BASE)
    for cont, cn in ((D, "doc"), (A, "sec")):
        nm = "a" if cont == D else "c"
        mk = ["sec", nm, "other-type", None, {}]
        cell("append/%s/clash-other-type" % cn, mk, ["append", cont, N])
        cell("insert/%s/clash-other-type" % cn, mk, ["insert", cont, 0, N])
        cell("insert/%s/clash-other-type-last" % cn, mk, ["insert", cont, 5, N])
        cell("extend/%s/clash-other-type" % cn, mk, ["extend", cont, [X, N]])
        cell("set_parent/%s/clash-other-type" % cn, mk, ["set_parent", N, cont])
        cell("setitem/%s/clash-other-type" % cn, mk, ["setitem", cont, "sections", 1, N])
        cell("create_section/%s/clash-other-type" % cn, ["create_section", cont, nm, "other-type"])
        cell("ctor/%s/clash-other-type" % cn, ["sec", nm, "other-type", cont, {}])
    cell("date/valid", ["set_attr", D, "date", enc("2020-02-03")], ["set_attr", D, "date", enc(dt.date(2021, 1, 1))])
    return t


# value-operation material (C05)
VALUE_POOL = {
    "int": [1, "2", "3.7", "2.5e3", "-3.2e1", "7.5e-1", 2.9, True, "x", "", None, [1, 2], ["1", "x"], [1, "x"], "[1, 2]", "[1,x]", 10 ** 20, "1e3", "(1;2)",
            {"a": 1}, b"5", dt.date(2020, 1, 1), float("nan"), " 7 ", float("inf"), "inf", "1e999", 10 ** 400, [1, float("inf")]],
    "float": [1.5, "2.5", 1, "x", "", None, [1.0, "2"], [1.5, "x"], "[1.5, 2]", "nan", "1e400", True, "1,5", dt.time(1, 2, 3), 10 ** 400, [1.5, 10 ** 400],
              float("inf"), "-inf", -0.0, 0.1 + 0.2, 1.0 / 3, 1234567.1234567891, [2.0 / 3, 1e-17 + 1e-33], 5e-324, 1.7976931348623157e308],
    "boolean": [True, False, "true", "False", "1", "0", "t", "f", 1, 0, 2, "yes", "", None, [True, "false"], "x", [True, "x"]],
    "string": ["s", u"zw\u00f6lf", "", " ", 5, 1.5, True, None, ["a", "b"], "[a, b]", "a\nb", ["x", 5], "[", "]", "[]", {"k": 1}, [], [[1, 2]],
               (1, 2), [(1, 2)], [{"a": 1}], {1, 2}],
    "text": ["line1\nline2", "s", "", 5, None, ["a", "b\nc"]],
    "url": ["http://x", "not a url", 5, ""], "person": ["A. B.", 7, ""],
    "date": [dt.date(2020, 1, 2), "2020-01-02", "0999-12-31", dt.date(1, 1, 1), "2020-1-2", "02.01.2020", dt.datetime(2020, 1, 2, 3, 4, 5), "", None,
             ["2020-01-02", "x"], 20200102, "2020-01-02 10:00:00"],
    "time": [dt.time(1, 2, 3), "01:02:03", "1:2:3", "25:00:00", dt.time(1, 2, 3, 456), "01:02", "", None,
             dt.time(1, 2, 3, tzinfo=dt.timezone.utc), "01:02:03+00:00", "01:02:03.5",
             dt.datetime(2020, 1, 2, 3, 4, 5), 5],
    "datetime": [dt.datetime(2020, 1, 2, 3, 4, 5), "2020-01-02 03:04:05", "0999-01-02 03:04:05", dt.datetime(999, 1, 2, 3, 4, 5),
                 "0001-01-01 00:00:00", "2020-01-02T03:04:05",
                 dt.datetime(2020, 1, 2, 3, 4, 5, 678), dt.date(2020, 1, 2), "2020-01-02", "", None, "x",
                 dt.datetime(2020, 1, 2, 3, 4, 5, tzinfo=dt.timezone.utc),
                 dt.datetime(2020, 1, 2, 3, 4, 5, 9, tzinfo=dt.timezone(dt.timedelta(hours=2))),
                 "2020-01-02 03:04:05+00:00", "2020-01-02 03:04:05.123"],
    "2-tuple": ["(1;2)", "(1; 2)", "(1;)", "(;2)", ["(1;)", "(;2)"], ["(1;2)", "(7;8;9)"], ["(7;8;9)", "(1;2)"], ["(3;4)", "(5)"], ["1", "2"], [["1", "2"]], "(1;2;3)", "(1)", "1;2", "", None, "[(1;2),(3;4)]",
                ["(1;2)", "(3;4)"], [["a", "b"], ["c"]], (1, 2), [(1, 2)], "( a ; b )", "((1;2))", "(;)"],
    "3-tuple": ["(1;2;3)", ["a", "b", "c"], "(1;2)"],
    # a two-digit arity
    "12-tuple": ["(" + ";".join(str(k) for k in range(12)) + ")", [[str(k) for k in range(12)]],
                 [[str(k) for k in range(12)], [str(k * 3) for k in range(12)]], [[str(k) for k in range(11)]],
                 "(1;2)", ["(" + ";".join("x%d" % k for k in range(12)) + ")", "(1)"], None],
}
DTYPES = ["string", "text", "int", "float", "url", "datetime", "date", "time", "boolean", "person", "2-tuple", "3-tuple", "12-tuple"]
DTYPE_INPUTS = DTYPES + ["DType.int", "str", "bool", "bogus", "", "0-tuple", None,
                         # names of Python types that are no odML types: must be refused at any point of a history
                         "tuple", "list", "complex", "dict", "bytes", "NoneType", "set", "datetime.date", "object"]


def dtype_arg(d):
    if d == "DType.int":
        import odml
        return odml.DType.int
    return d


def value_deck():
    """(dtype x value x first operation) exhaustively for single operations, then pairs over a reduced
    pool: C05's 'length <= 2' enumeration."""
    t = []
    for dtype in DTYPES:
        pool = VALUE_POOL[dtype] + [VALUE_POOL["int"][0], VALUE_POOL["string"][0]]
        for v in pool:
            ev = enc(v)
            t.append(("ctor/%s" % dtype, [["prop", "p", ev, dtype, None, {}]]))
            t.append(("ctor-untyped", [["prop", "p", ev, None, None, {}]]))
            base = [["prop", "p", enc(None), dtype, None, {}]]
            good = enc(_good(dtype))
            full = [["prop", "p", good, dtype, None, {}]]
            for strict in (True, False):
                t.append(("append-empty/%s" % dtype, base + [["pappend", 0, ev, strict]]))
                t.append(("append/%s" % dtype, full + [["pappend", 0, ev, strict]]))
                t.append(("extend/%s" % dtype, full + [["pextend", 0, ev, strict]]))
                t.append(("insert/%s" % dtype, full + [["pinsert", 0, 0, ev, strict]]))
            t.append(("values=/%s" % dtype, full + [["set_values", 0, ev]]))
            t.append(("values=/empty/%s" % dtype, base + [["set_values", 0, ev]]))
            t.append(("setitem/%s" % dtype, full + [["psetitem", 0, 0, ev]]))
            t.append(("setitem-oor/%s" % dtype, full + [["psetitem", 0, 5, ev]]))
            t.append(("remove/%s" % dtype, full + [["premove", 0, ev]]))
            t.append(("untyped-then-fail", [["prop", "u", enc(None), None, None, {}], ["set_values", 0, ev]]))
        for d2 in DTYPE_INPUTS:
            t.append(("dtype=/%s->%s" % (dtype, d2), [["prop", "p", enc(_good(dtype)), dtype, None, {}],
                                                      ["set_dtype", 0, d2], ["reassign_values", 0]]))
            t.append(("dtype=/empty/%s->%s" % (dtype, d2), [["prop", "p", enc(None), dtype, None, {}],
                                                            ["set_dtype", 0, d2]]))
        # the same with a name and values outside ASCII (what the library prints about them must not matter)
        for d2 in DTYPE_INPUTS[:14]:
            t.append(("dtype=/non-ascii/%s->%s" % (dtype, d2), [["prop", u"gr\u00f6\u00dfe \u65e5\u672c", enc([u"zw\u00f6lf", "13"] if dtype in ("string", "text") else _good(dtype)),
                                                                 dtype, None, {}], ["set_dtype", 0, d2], ["reassign_values", 0]]))
        t.append(("reassign/%s" % dtype, [["prop", "p", enc(_good(dtype)), dtype, None, {}], ["reassign_values", 0],
                                          ["clone", 0, True, False], ["reassign_values", 1]]))
        for d2 in DTYPES:
            for strict in (True, False):
                t.append(("merge/%s<-%s" % (dtype, d2), [["prop", "p", enc(_good(dtype)), dtype, None, {}],
                                                         ["prop", "p", enc(_good(d2)), d2, None, {}],
                                                         ["merge", 0, 1, strict], ["reassign_values", 0]]))
                t.append(("extend-prop/%s<-%s" % (dtype, d2), [["prop", "p", enc(_good(dtype)), dtype, None, {}],
                                                               ["prop", "p", enc(_good(d2)), d2, None, {}],
                                                               ["pextend_prop", 0, 1]]))
    for d in DTYPE_INPUTS:
        t.append(("ctor-dtype-input/%s" % d, [["prop", "p", enc(["1"]), d, None, {}], ["reassign_values", 0]]))
    return t


def _good(dtype):
    return {"int": [1, 2], "float": [1.5], "boolean": [True, False], "string": ["s", "t"], "text": ["a\nb"],
            "url": ["http://x"], "person": ["A. B."], "date": [dt.date(2020, 1, 2)], "time": [dt.time(1, 2, 3)],
            "datetime": [dt.datetime(2020, 1, 2, 3, 4, 5)], "2-tuple": [["1", "2"], ["3", "4"]],
            "3-tuple": [["a", "b", "c"]], "12-tuple": [[str(k) for k in range(12)]]}[dtype]


def rand_value_ops(rng, n):
    """Random value-editing history over 1-2 Properties."""
    dtype = rng.choice(DTYPES + [None])
    ops = [["prop", "p", enc(rng.choice([None] + (VALUE_POOL.get(dtype) or VALUE_POOL["string"]))), dtype, None, {}],
           ["prop", "q", enc(_good(rng.choice(DTYPES))), None, None, {}]]
    for _ in range(n):
        tgt = rng.choice([0, 0, 0, 1])
        d = rng.choice(DTYPES)
        v = enc(rng.choice(VALUE_POOL[rng.choice([dtype or "string", dtype or "int", d])]))
        kind_ = rng.choice(["set_values", "set_values", "pappend", "pextend", "pinsert", "psetitem", "premove",
                            "set_dtype", "reassign_values", "merge", "clone", "pextend_prop"])
        strict = rng.random() < 0.6
        if kind_ == "set_values":
            ops.append(["set_values", tgt, v])
        elif kind_ in ("pappend", "pextend"):
            ops.append([kind_, tgt, v, strict])
        elif kind_ == "pinsert":
            ops.append(["pinsert", tgt, rng.choice([0, 1, 5, -1]), v, strict])
        elif kind_ == "psetitem":
            ops.append(["psetitem", tgt, rng.choice([0, 1, 2, -1]), v])
        elif kind_ == "premove":
            ops.append(["premove", tgt, v])
        elif kind_ == "set_dtype":
            ops.append(["set_dtype", tgt, rng.choice(DTYPE_INPUTS)])
        elif kind_ == "reassign_values":
            ops.append(["reassign_values", tgt])
        elif kind_ == "merge":
            ops.append(["merge", tgt, 1 - tgt, strict])
        elif kind_ == "pextend_prop":
            ops.append(["pextend_prop", tgt, 1 - tgt])
        else:
            ops.append(["clone", tgt, True, rng.random() < 0.5])
    return ops


def rand_struct_op(rng, world, failing=0.3):
    """One random structural op over the current world."""
    secs, props, docs = world.refs("sec"), world.refs("prop"), world.refs("doc")
    conts = secs + docs
    anyobj = secs + props

    def odd(pool, p=0.08):
        if rng.random() < p or not pool:
            return rng.choice([LIT_S, LIT_I] + (docs[:1] if docs else []) + (props[:1] if props else []))
        return rng.choice(pool)
    r = rng.random()
    kinds = ["append", "insert", "extend", "remove", "set_parent", "setitem", "reorder", "rename", "clone",
             "merge", "link", "sec", "prop", "create", "new_id", "set_card", "finalize", "doc_attr"]
    weights = [10, 8, 5, 6, 12, 8, 7, 8, 5, 5, 4, 6, 5, 3, 2, 3, 2, 2]
    k = rng.choices(kinds, weights)[0]
    nm_s = lambda: rng.choice(hist.SEC_NAMES)
    nm_p = lambda: rng.choice(hist.PROP_NAMES)
    if not conts:
        return ["doc"]
    if k == "append":
        return ["append", rng.choice(conts), odd(anyobj)]
    if k == "insert":
        return ["insert", rng.choice(conts), rng.choice([0, 0, 1, 2, -1, 9]), odd(anyobj)]
    if k == "extend":
        return ["extend", rng.choice(conts), [odd(anyobj) for _ in range(rng.choice([1, 2, 2, 3]))]]
    if k == "remove":
        c = rng.choice(conts)
        kids = [i for i in anyobj if world.objs[i].__dict__.get("_parent") is world.objs[c]]
        return ["remove", c, rng.choice(kids) if kids and rng.random() < 0.8 else odd(anyobj)]
    if k == "set_parent":
        return ["set_parent", rng.choice(anyobj) if anyobj else conts[0],
                None if rng.random() < 0.2 else odd(conts, 0.05)]
    if k == "setitem":
        c = rng.choice(conts)
        lst = rng.choice(["sections", "sections", "properties"]) if world.kind(c) == "sec" else "sections"
        return ["setitem", c, lst, rng.choice([0, 0, 1, 2, -1]), odd(secs if lst == "sections" else props, 0.1)]
    if k == "reorder":
        return ["reorder", rng.choice(anyobj) if anyobj else conts[0], rng.choice([-2, -1, 0, 0, 1, 1, 2, 3])]
    if k == "rename":
        o = rng.choice(anyobj) if anyobj else None
        if o is None:
            return ["doc"]
        nm = nm_s() if world.kind(o) == "sec" else nm_p()
        return ["rename", o, enc(rng.choice([nm, nm, None, "", "zz", nm + " ", " " + nm]))]
    if k == "clone":
        return ["clone", rng.choice(anyobj + docs), rng.random() < 0.8, rng.random() < 0.3]
    if k == "merge":
        if rng.random() < 0.7 and len(secs) > 1:
            return ["merge", rng.choice(secs), rng.choice(secs), rng.random() < 0.5]
        if len(props) > 1:
            return ["merge", rng.choice(props), rng.choice(props), rng.random() < 0.5]
        return ["merge", rng.choice(conts), odd(anyobj), True]
    if k == "link":
        if not secs:
            return ["doc"]
        return ["set_link", rng.choice(secs), rng.choice(secs + [None, "/nowhere"])]
    if k == "sec":
        extra = {}
        if rng.random() < failing * 0.3:
            extra["sec_cardinality"] = enc(rng.choice(["bad", (3, 1), -2]))
        if rng.random() < 0.1:
            extra["oid"] = rng.choice(BAD_IDS + ODD_IDS + [GOOD_ID])
        return ["sec", rng.choice([nm_s(), nm_s(), None]), rng.choice(["t", "t", "t", "t2"]), rng.choice(conts + [None]), extra]
    if k == "prop":
        extra = {}
        if rng.random() < failing * 0.3:
            extra["val_cardinality"] = enc(rng.choice(["bad", (3, 1), -2]))
        vals = rng.choice([[1], ["x"], [1, "x"], None, [1.5, 2]])
        return ["prop", rng.choice([nm_p(), nm_p(), None]), enc(vals), rng.choice(["int", None, "string"]),
                rng.choice(secs + [None]) if secs else None, extra]
    if k == "create":
        if rng.random() < 0.5:
            return ["create_section", rng.choice(conts), nm_s(), "t"]
        return ["create_property", rng.choice(secs) if secs else conts[0], nm_p(),
                enc(rng.choice([[1], ["x"], None])), rng.choice(["int", None])]
    if k == "doc_attr" and docs:
        import datetime as _dt
        if rng.random() < 0.3:
            return ["doc", {"oid": rng.choice(BAD_IDS + ODD_IDS + [GOOD_ID])}]
        return ["set_attr", rng.choice(docs), "date", enc(rng.choice([_dt.date(2020, 2, 29), "2019-03-04", "2021-02-29", "nonsense",
                                                                      None, _dt.datetime(2020, 1, 1, 1, 1, 1)]))]
    if k == "new_id":
        return ["new_id", rng.choice(anyobj + docs), rng.choice([None, GOOD_ID] + BAD_IDS[:2] + ODD_IDS[:2])]
    if k == "set_card":
        o = rng.choice(anyobj) if anyobj else None
        if o is None:
            return ["doc"]
        ck = rng.choice(["sec_cardinality", "prop_cardinality"]) if world.kind(o) == "sec" else "val_cardinality"
        return ["set_card", o, ck, enc(rng.choice([None, 2, (1, 2), (None, 3), (2, None), (1, 1), (2, 2), "bad", (3, 1), -1, (0, 0), ("1", "2"), (None, "2"), ["1", "3"], (1, "2"), ("", 2)]))]
    return ["finalize", rng.choice(docs)] if docs and rng.random() < 0.5 else ["clean", rng.choice(conts)]


def random_history(rng, runner, length, failing=0.3, skip=()):
    """Generates ops one at a time against a scratch world so that arguments can be chosen by
    pre-state; returns the op list (the verdict comes from re-running it under the monitors)."""
    world = hist.World()
    ops = []
    seed_ops = [["doc"], ["sec", "a", "t", 0, {}], ["sec", "b", "t", 0, {}], ["sec", "c", "t", 1, {}],
                ["prop", "p", enc([1]), "int", 1, {}], ["sec", "a", "t", None, {}], ["prop", "p", enc([2]), "int", None, {}]]
    if rng.random() < 0.3:
        seed_ops += [["doc"], ["sec", "b", "t", 7, {}]]
    for op in seed_ops:
        hist.execute(world, op)
        ops.append(op)
    tries = 0
    while len(ops) < length + len(seed_ops) and tries < length * 6:
        tries += 1
        op = rand_struct_op(rng, world, failing)
        try:
            # pre-state class of this op in the scratch world decides whether the cell is skipped
            # (open known finding, re-confirmed by the directed deck in the same run)
            probe = _probe_tags(world, op)
        except Exception:
            continue
        cell = "%s:%s" % (op[0], "+".join(sorted(set(probe))) or "-")
        if op[0] in ("merge", "set_link", "finalize") and set(probe) & {"self", "related", "ancestor", "descendant",
                                                                      "other-document-or-detached",
                                                                      "link-into-own-branch",
                                                                      "chained-or-nested-links"}:
            # outside every quantifier (merging a Section into itself / its own subtree, links to the
            # own subtree); exercised once each by the directed deck only
            runner.rec.count("skipped_out_of_scope_cells", cell)
            continue
        if cell in skip:
            runner.rec.count("skipped_known_cells", cell)
            continue
        try:
            hist.execute(world, op)
        except (hist.SkipOp, IndexError):
            continue
        ops.append(op)
        # a scratch world that went bad (unknown violation) ends generation; the monitors will report it
        if len(ops) % 5 == 0:
            fs = hist.facts(hist.universe(world), run_queries=False)
            if any(f[0].startswith("T:") for f in fs):
                break
    return ops


def _probe_tags(world, op):
    """Tags the op would get, computed without executing it."""
    return hist.execute(world, op, dry=True)["tags"]
