"""Controlled scheduler: all application threads are serialised by token passing; exactly one runs at
a time and hands the token back only at scheduling points (shared-table accesses, Thread.start,
Thread.join, thread exit).  A schedule is a replayable list of choices, so interleavings are explored
systematically (preemption bounding) instead of hoped for.  Deadlock is decided structurally: no
runnable thread while some are blocked."""
import threading

_real_start = threading.Thread.start
_real_join = threading.Thread.join


class DeadlockAbort(BaseException):
    pass


class Controlled(object):
    def __init__(self, tid, thread):
        self.tid = tid
        self.thread = thread
        self.sem = threading.Semaphore(0)
        self.state = "runnable"      # runnable | blocked | finished
        self.blocked_on = None
        self.abort = False


class Scheduler(object):
    """One instance per explored execution."""

    def __init__(self, decisions=None, rng=None, max_points=5000):
        self.decisions = dict(decisions or {})   # point index -> rank among runnable alternatives (0 = stay)
        self.rng = rng                           # optional random choices beyond the decision list
        self.lock = threading.Lock()
        self.threads = {}                        # ident -> Controlled
        self.by_tid = {}
        self.current = None
        self.points = []                         # (tid, label, n_runnable, chosen_tid)
        self.trace = []                          # labels in execution order (the observed interleaving)
        self.deadlock = False
        self.errors = []                         # exceptions that escaped loader threads
        self.max_points = max_points
        self.active = False
        self.p_switch = 0.0

    # -- registration ----------------------------------------------------------------------
    def register_main(self):
        c = Controlled(0, threading.current_thread())
        self.threads[threading.get_ident()] = c
        self.by_tid[0] = c
        self.current = c
        self.active = True

    def me(self):
        return self.threads.get(threading.get_ident())

    # -- core ------------------------------------------------------------------------------
    def _runnable(self):
        return [c for c in sorted(self.by_tid.values(), key=lambda c: c.tid) if c.state == "runnable"]

    def _pick(self, cur, label):
        """Choose the next thread to run at a scheduling point of `cur` (which may be non-runnable)."""
        runnable = self._runnable()
        idx = len(self.points)
        if not runnable:
            self.points.append((cur.tid, label, 0, None))
            return None
        # alternatives ordered: current first (no preemption), then the others by tid
        alts = ([cur] if cur.state == "runnable" else []) + [c for c in runnable if c is not cur]
        rank = self.decisions.get(idx)
        if rank is None:
            rank = 0
            if self.rng is not None and len(alts) > 1 and self.rng.random() < self.p_switch:
                rank = self.rng.randrange(1, len(alts))
        rank = min(rank, len(alts) - 1)
        chosen = alts[rank]
        self.points.append((cur.tid, label, len(alts), chosen.tid))
        return chosen

    def yield_point(self, label):
        if not self.active:
            return
        cur = self.me()
        if cur is None:
            return
        if cur.abort:
            raise DeadlockAbort()
        with self.lock:
            if len(self.points) >= self.max_points:
                return
            self.trace.append("%d:%s" % (cur.tid, label))
            chosen = self._pick(cur, label)
        self._switch(cur, chosen)

    def _switch(self, cur, chosen):
        if chosen is None or chosen is cur:
            return
        self.current = chosen
        chosen.sem.release()
        cur.sem.acquire()
        if cur.abort:
            raise DeadlockAbort()

    def _block_until(self, cur, target):
        """cur waits for target to finish."""
        with self.lock:
            if target.state == "finished":
                return
            cur.state = "blocked"
            cur.blocked_on = target
            self.trace.append("%d:join-wait(%d)" % (cur.tid, target.tid))
            chosen = self._pick(cur, "join-wait")
            if chosen is None:
                self._declare_deadlock()
                cur.state = "runnable"
                raise DeadlockAbort()
        self.current = chosen
        chosen.sem.release()
        cur.sem.acquire()
        if cur.abort:
            raise DeadlockAbort()

    def block_on(self, cur, obj):
        """cur waits until obj (a CoopRLock) is released."""
        with self.lock:
            cur.state = "blocked"
            cur.blocked_on = obj
            self.trace.append("%d:lock-wait" % cur.tid)
            chosen = self._pick(cur, "lock-wait")
            if chosen is None:
                self._declare_deadlock()
                cur.state = "runnable"
                raise DeadlockAbort()
        self.current = chosen
        chosen.sem.release()
        cur.sem.acquire()
        if cur.abort:
            raise DeadlockAbort()

    def unblock_waiters(self, obj):
        with self.lock:
            for c in self.by_tid.values():
                if c.state == "blocked" and c.blocked_on is obj:
                    c.state = "runnable"
                    c.blocked_on = None

    def _declare_deadlock(self):
        self.deadlock = True
        for c in self.by_tid.values():
            if c.state == "blocked":
                c.abort = True
                c.state = "runnable"

    def thread_finished(self, cur):
        with self.lock:
            cur.state = "finished"
            self.trace.append("%d:exit" % cur.tid)
            for c in self.by_tid.values():
                if c.state == "blocked" and c.blocked_on is cur:
                    c.state = "runnable"
                    c.blocked_on = None
            chosen = self._pick(cur, "exit")
            if chosen is None:
                if any(c.state == "blocked" for c in self.by_tid.values()):
                    self._declare_deadlock()
                    chosen = self._runnable()[0] if self._runnable() else None
        if chosen is not None:
            self.current = chosen
            chosen.sem.release()

    # -- thread API patches ----------------------------------------------------------------
    def start_thread(self, thread):
        cur = self.me()
        if cur is None or not self.active:
            return _real_start(thread)
        if getattr(thread, "_verif_started", False):
            return _real_start(thread)      # raises "threads can only be started once" as the real one would
        tid = len(self.by_tid)
        c = Controlled(tid, thread)
        thread._verif_started = True
        orig_run = thread.run
        sched = self

        def run():
            sched.threads[threading.get_ident()] = c
            c.sem.acquire()                 # parked until scheduled for the first time
            try:
                if not c.abort:
                    orig_run()
            except DeadlockAbort:
                pass
            except BaseException as exc:    # an exception escaping a loader thread
                sched.errors.append(exc)
            finally:
                sched.thread_finished(c)
        thread.run = run
        with self.lock:
            self.by_tid[tid] = c
        _real_start(thread)
        self.yield_point("start(%d)" % tid)

    def join_thread(self, thread, timeout=None):
        cur = self.me()
        if cur is None or not self.active:
            return _real_join(thread, timeout)
        target = next((c for c in self.by_tid.values() if c.thread is thread), None)
        if target is None:
            # not a controlled (i.e. never started) thread: the real join raises as it would
            return _real_join(thread, timeout)
        self.yield_point("join(%d)" % target.tid)
        self._block_until(cur, target)

    def finish(self):
        """Main thread: let every remaining thread run to completion, then deactivate."""
        cur = self.me()
        guard = 0
        while guard < 10000:
            guard += 1
            with self.lock:
                others = [c for c in self.by_tid.values() if c is not cur and c.state != "finished"]
                if not others:
                    break
                runnable = [c for c in others if c.state == "runnable"]
                if not runnable:
                    self._declare_deadlock()
                    runnable = [c for c in others if c.state == "runnable"]
                    if not runnable:
                        break
                chosen = runnable[0]
                cur.state = "blocked"
                cur.blocked_on = chosen
            self.current = chosen
            chosen.sem.release()
            cur.sem.acquire()
            cur.state = "runnable"
            cur.abort = False
        self.active = False
        for c in self.by_tid.values():
            if c is not cur and c.thread.is_alive():
                _real_join(c.thread, 5)


_current = [None]


def install():
    """Patch Thread.start / Thread.join once; they delegate to the active Scheduler (if any)."""
    if getattr(threading.Thread, "_verif_patched", False):
        return

    def start(self):
        s = _current[0]
        if s is not None and s.active:
            return s.start_thread(self)
        return _real_start(self)

    def join(self, timeout=None):
        s = _current[0]
        if s is not None and s.active:
            return s.join_thread(self, timeout)
        return _real_join(self, timeout)
    threading.Thread.start = start
    threading.Thread.join = join
    threading.Thread._verif_patched = True


def activate(s):
    _current[0] = s
    s.register_main()


def deactivate():
    _current[0] = None


def point(label):
    s = _current[0]
    if s is not None and s.active:
        s.yield_point(label)


class CoopRLock(object):
    """Re-entrant lock that the scheduler understands: acquiring / releasing are scheduling points, a thread
    that finds it taken becomes 'blocked' (so deadlocks are decided structurally).  Outside a controlled
    execution it behaves like the real RLock it wraps."""

    def __init__(self, label="lock"):
        self._real = threading.RLock()
        self.owner = None
        self.count = 0
        self.label = label

    def acquire(self, blocking=True, timeout=-1):
        s = _current[0]
        if s is None or not s.active or s.me() is None:
            return self._real.acquire(blocking, timeout)
        me = s.me()
        s.yield_point("%s.acquire" % self.label)
        while self.owner is not None and self.owner is not me:
            s.block_on(me, self)
        self.owner = me
        self.count += 1
        return True

    def release(self):
        s = _current[0]
        if s is None or not s.active or s.me() is None or self.owner is None:
            return self._real.release()
        self.count -= 1
        if self.count == 0:
            self.owner = None
            s.unblock_waiters(self)
            s.yield_point("%s.release" % self.label)

    def __enter__(self):
        self.acquire()
        return self

    def __exit__(self, *a):
        self.release()
        return False


class PointDict(dict):
    """dict whose accesses are scheduling points (replaces the class-level `loading` tables)."""
    _label = "loading"

    def __contains__(self, k):
        point("%s.contains" % self._label)
        return dict.__contains__(self, k)

    def __getitem__(self, k):
        point("%s.get" % self._label)
        return dict.__getitem__(self, k)

    def __setitem__(self, k, v):
        point("%s.set" % self._label)
        return dict.__setitem__(self, k, v)

    def pop(self, *a):
        point("%s.pop" % self._label)
        return dict.pop(self, *a)

    def get(self, *a):
        point("%s.get" % self._label)
        return dict.get(self, *a)


def instrument_table_class(cls, label):
    """Accesses to instances of a dict subclass (Terminologies / TemplateHandler) become scheduling points."""
    if getattr(cls, "_verif_points", False):
        return

    def contains(self, k):
        point("%s.contains" % label)
        return dict.__contains__(self, k)

    def getitem(self, k):
        point("%s.get" % label)
        return dict.__getitem__(self, k)

    def setitem(self, k, v):
        point("%s.set" % label)
        return dict.__setitem__(self, k, v)

    def clear(self):
        point("%s.clear" % label)
        return dict.clear(self)
    def get(self, *a):
        point("%s.get" % label)
        return dict.get(self, *a)
    cls.__contains__ = contains
    cls.__getitem__ = getitem
    cls.__setitem__ = setitem
    cls.clear = clear
    cls.get = get
    cls._verif_points = True
