"""Pure-data model of odML object graphs: extraction (reads private fields so that a broken graph
cannot hang or mislead the monitor), typed comparison with diff items, JSON encoding."""
import datetime as dt
import math

DOC_ATTRS = ("author", "version", "date", "repository")
SEC_ATTRS = ("definition", "reference", "repository", "link", "include",
             "sec_cardinality", "prop_cardinality")
PROP_ATTRS = ("unit", "uncertainty", "reference", "definition", "dependency",
              "dependency_value", "value_origin", "val_cardinality")


def kind(obj):
    n = type(obj).__name__
    if n == "BaseDocument":
        return "doc"
    if n == "BaseSection":
        return "sec"
    if n == "BaseProperty":
        return "prop"
    # subclasses
    from odml.doc import BaseDocument
    from odml.section import BaseSection
    from odml.property import BaseProperty
    if isinstance(obj, BaseDocument):
        return "doc"
    if isinstance(obj, BaseSection):
        return "sec"
    if isinstance(obj, BaseProperty):
        return "prop"
    return None


def _val(v):
    if isinstance(v, list):
        return [_val(x) for x in v]
    if isinstance(v, tuple):
        return tuple(_val(x) for x in v)
    return v


def model_of(obj, depth=0):
    """Pure-data tree of a Document / Section / Property (private fields, no library calls)."""
    if depth > 200:
        return {"k": "cycle"}
    k = kind(obj)
    d = obj.__dict__
    if k == "doc":
        m = {"k": "doc", "id": d.get("_id")}
        for a in DOC_ATTRS:
            m[a] = d.get("_" + a)
        m["sections"] = [model_of(s, depth + 1) for s in list.__iter__(d.get("_sections", []))]
        return m
    if k == "sec":
        m = {"k": "sec", "id": d.get("_id"), "name": d.get("_name"),
             "type": d.get("type", getattr(type(obj), "type", None))}
        for a in SEC_ATTRS:
            m[a] = d.get("_" + a)
        m["sections"] = [model_of(s, depth + 1) for s in list.__iter__(d.get("_sections", []))]
        m["properties"] = [model_of(p, depth + 1) for p in list.__iter__(d.get("_props", []))]
        return m
    if k == "prop":
        m = {"k": "prop", "id": d.get("_id"), "name": d.get("_name"), "dtype": d.get("_dtype"),
             "values": _val(list(d.get("_values", [])))}
        for a in PROP_ATTRS:
            m[a] = d.get("_" + a)
        return m
    return {"k": "other", "repr": repr(obj)}


# ---------------------------------------------------------------------------------------------
# typed equality / diff

def same(a, b):
    """Equality that distinguishes 1 / 1.0 / True and treats NaN == NaN."""
    if type(a) is not type(b):
        return False
    if isinstance(a, float):
        if math.isnan(a) and math.isnan(b):
            return True
        return a == b and math.copysign(1, a) == math.copysign(1, b)
    if isinstance(a, (list, tuple)):
        return len(a) == len(b) and all(same(x, y) for x, y in zip(a, b))
    if isinstance(a, dict):
        return set(a) == set(b) and all(same(a[k], b[k]) for k in a)
    return a == b


def diff(exp, obs, path="", ignore=(), unordered=False):
    """List of diff items {path, field, exp, obs} between two models."""
    out = []
    if exp.get("k") != obs.get("k"):
        return [{"path": path, "field": "kind", "exp": exp.get("k"), "obs": obs.get("k")}]
    here = path + "/" + str(exp.get("name", "")) if exp["k"] != "doc" else ""
    if exp["k"] in ("sec", "prop") and exp.get("name") != obs.get("name") \
            and obs.get("name") == obs.get("id") and exp.get("id") != obs.get("id"):
        # a lenient reader replaced the object by a default-constructed one
        return [{"path": here, "field": "replaced-by-default", "kind": exp["k"],
                 "exp": exp.get("values", exp.get("name")), "obs": None,
                 "ctx": {"dtype": exp.get("dtype")} if exp["k"] == "prop" else {}}]
    for f in exp:
        if f in ("k", "sections", "properties") or f in ignore:
            continue
        if not same(exp[f], obs.get(f)):
            out.append({"path": here or "/", "field": f, "kind": exp["k"],
                        "exp": exp[f], "obs": obs.get(f),
                        "ctx": {"dtype": exp.get("dtype")} if exp["k"] == "prop" else {}})
    for lst in ("sections", "properties"):
        if lst not in exp:
            continue
        e, o = exp[lst], obs.get(lst, [])
        if unordered:
            en = {c.get("name"): c for c in e}
            on = {c.get("name"): c for c in o}
            if sorted(map(str, en)) != sorted(map(str, on)) or len(e) != len(o):
                out.append({"path": here or "/", "field": lst + ".names", "kind": exp["k"],
                            "exp": sorted(map(str, en)), "obs": sorted(map(str, on)), "ctx": {}})
            for n in en:
                if n in on:
                    out.extend(diff(en[n], on[n], here, ignore, unordered))
            continue
        # ordered lists: align by name so that one lost child does not misalign its siblings
        en = [c.get("name") for c in e]
        on = [c.get("name") for c in o]
        odict = {}
        for c in o:
            odict.setdefault(c.get("name"), c)
        used = set()
        unmatched_e = []
        for ce in e:
            co = odict.get(ce.get("name"))
            if co is not None and id(co) not in used:
                used.add(id(co))
                out.extend(diff(ce, co, here, ignore, unordered))
            else:
                unmatched_e.append(ce)
        unmatched_o = [c for c in o if id(c) not in used]
        # a default-replaced object (lenient readers) pairs up with the unmatched expected child at
        # the same index
        for ce in list(unmatched_e):
            idx = e.index(ce)
            if idx < len(o) and o[idx] in unmatched_o and o[idx].get("name") == o[idx].get("id"):
                out.extend(diff(ce, o[idx], here, ignore, unordered))
                unmatched_e.remove(ce)
                unmatched_o.remove(o[idx])
                on[idx] = ce.get("name")
        for ce in unmatched_e:
            out.append({"path": here + "/" + str(ce.get("name")), "field": "child-missing",
                        "kind": ce.get("k"), "exp": ce.get("values", ce.get("name")), "obs": None,
                        "ctx": {"dtype": ce.get("dtype")} if ce.get("k") == "prop" else {}})
        for co in unmatched_o:
            out.append({"path": here + "/" + str(co.get("name")), "field": "child-extra",
                        "kind": co.get("k"), "exp": None, "obs": co.get("name"), "ctx": {}})
        if not unmatched_e and not unmatched_o and en != on:
            out.append({"path": here or "/", "field": lst + ".order", "kind": exp["k"],
                        "exp": en, "obs": on, "ctx": {}})
    return out


def map_strings(m, fn):
    """Copy of a model with fn applied to every str leaf (names, attributes, values, tuple items)."""
    def mv(v):
        if isinstance(v, str):
            return fn(v)
        if isinstance(v, list):
            return [mv(x) for x in v]
        return v
    out = {}
    for k, v in m.items():
        if k in ("sections", "properties"):
            out[k] = [map_strings(c, fn) for c in v]
        elif k == "k":
            out[k] = v
        else:
            out[k] = mv(v)
    return out


def walk(m, path=""):
    """Yield (path, node) over a model tree."""
    here = path + "/" + str(m.get("name", "")) if m.get("k") != "doc" else ""
    yield here or "/", m
    for c in m.get("sections", []):
        for x in walk(c, here):
            yield x
    for c in m.get("properties", []):
        yield here + ":" + str(c.get("name")), c


# ---------------------------------------------------------------------------------------------
# JSON encoding of typed values (replay files, samples)

def enc(v):
    if isinstance(v, bool) or v is None or isinstance(v, (int, str)):
        return v
    if isinstance(v, float):
        if math.isnan(v) or math.isinf(v):
            return {"$f": repr(v)}
        return v
    if isinstance(v, dt.datetime):
        return {"$dt": v.isoformat(" ")}
    if isinstance(v, dt.date):
        return {"$d": v.isoformat()}
    if isinstance(v, dt.time):
        return {"$t": v.isoformat()}
    if isinstance(v, tuple):
        return {"$tuple": [enc(x) for x in v]}
    if isinstance(v, list):
        return [enc(x) for x in v]
    if isinstance(v, dict):
        if all(isinstance(k, str) for k in v):
            return {k: enc(x) for k, x in v.items()}
        return {"$dict": [[enc(k), enc(x)] for k, x in v.items()]}      # keys that are no text
    return {"$repr": repr(v)}


def dec(v):
    if isinstance(v, list):
        return [dec(x) for x in v]
    if isinstance(v, dict):
        if "$dict" in v:
            return {(tuple(dec(k)) if isinstance(dec(k), list) else dec(k)): dec(x) for k, x in v["$dict"]}
        if "$f" in v:
            return float(v["$f"])
        if "$dt" in v:
            return dt.datetime.fromisoformat(v["$dt"])
        if "$d" in v:
            return dt.date.fromisoformat(v["$d"])
        if "$t" in v:
            return dt.time.fromisoformat(v["$t"])
        if "$tuple" in v:
            return tuple(dec(x) for x in v["$tuple"])
        if "$repr" in v:
            return v["$repr"]
        return {k: dec(x) for k, x in v.items()}
    return v
