"""Logical step budget (sys.monitoring PY_START/PY_RESUME): turns a non-terminating library call
into a deterministic exception instead of a hang; decided on logical steps, never wall time."""
import sys


class BudgetExceeded(BaseException):
    pass


TOOL = 4  # a free tool id (0-5 usable; 4 is not reserved by debugger/coverage/profiler/optimizer)


class Budget(object):
    def __init__(self, limit=200000):
        self.limit = limit
        self.n = 0
        self.active = False

    def _cb(self, code, offset):
        self.n += 1
        if self.n > self.limit and self.active:
            self.active = False
            raise BudgetExceeded("more than %d Python calls" % self.limit)

    def __enter__(self):
        mon = sys.monitoring
        self.n = 0
        self.active = True
        try:
            mon.use_tool_id(TOOL, "odml-verif-budget")
        except ValueError:
            pass
        mon.register_callback(TOOL, mon.events.PY_START, self._cb)
        mon.register_callback(TOOL, mon.events.PY_RESUME, self._cb)
        mon.set_events(TOOL, mon.events.PY_START | mon.events.PY_RESUME)
        return self

    def __exit__(self, *exc):
        mon = sys.monitoring
        self.active = False
        mon.set_events(TOOL, 0)
        mon.register_callback(TOOL, mon.events.PY_START, None)
        mon.register_callback(TOOL, mon.events.PY_RESUME, None)
        try:
            mon.free_tool_id(TOOL)
        except ValueError:
            pass
        return False


def run(fn, limit=200000):
    """(ok, result_or_exception, calls)."""
    b = Budget(limit)
    try:
        with b:
            r = fn()
        return True, r, b.n
    except BudgetExceeded as exc:
        return False, exc, b.n
