"""Recorder (what the monitors observed), merging of worker results, three-valued verdicts,
known-finding matching, evidence and replay files."""
import hashlib
import json
import os
import random
import re
import time

from . import env

MAX_SAMPLES = 6


def h(obj):
    """Stable short hash of a JSON-able case."""
    s = json.dumps(obj, sort_keys=True, default=repr, ensure_ascii=True)
    return hashlib.sha1(s.encode()).hexdigest()[:16]


class Recorder(object):
    def __init__(self):
        self.evaluations = 0
        self.cases = set()          # hashes of distinct non-trivial cases
        self.trivial = 0
        self.samples = []
        self.tables = {}            # table -> cell -> count
        self.monitors = {}          # monitor/condition name -> evaluations
        self.outcomes = {}
        self.violations = {}        # key -> {"count", "what", "case"}
        self.inconclusive = []
        self.extra = {}
        self.states = set()

    # -- observation ---------------------------------------------------------------------
    def evaluation(self, n=1):
        self.evaluations += n

    def case(self, case_hash, nontrivial=True):
        if nontrivial:
            self.cases.add(case_hash)
        else:
            self.trivial += 1

    def sample(self, obj):
        if len(self.samples) < MAX_SAMPLES:
            self.samples.append(obj)

    def count(self, table, cell, n=1):
        t = self.tables.setdefault(table, {})
        t[cell] = t.get(cell, 0) + n

    def monitor(self, name, n=1):
        self.monitors[name] = self.monitors.get(name, 0) + n

    def outcome(self, label, n=1):
        self.outcomes[label] = self.outcomes.get(label, 0) + n

    def state(self, state_hash):
        self.states.add(state_hash)

    def violation(self, key, what, case):
        v = self.violations.get(key)
        if v is None:
            self.violations[key] = {"count": 1, "what": what, "case": case}
        else:
            v["count"] += 1
            # keep the smallest witness
            try:
                if len(json.dumps(case, default=repr)) < len(json.dumps(v["case"], default=repr)):
                    v["case"] = case
                    v["what"] = what
            except Exception:
                pass

    def inconclusive_because(self, reason):
        if reason not in self.inconclusive:
            self.inconclusive.append(reason)

    # -- (de)serialisation ---------------------------------------------------------------
    def dump(self):
        return {
            "evaluations": self.evaluations, "cases": sorted(self.cases), "trivial": self.trivial,
            "samples": self.samples, "tables": self.tables, "monitors": self.monitors,
            "outcomes": self.outcomes, "violations": self.violations,
            "inconclusive": self.inconclusive, "extra": self.extra, "states": sorted(self.states),
        }

    def merge(self, d):
        self.evaluations += d["evaluations"]
        self.cases.update(d["cases"])
        self.states.update(d.get("states", []))
        self.trivial += d["trivial"]
        for s in d["samples"]:
            self.sample(s)
        for t, cells in d["tables"].items():
            for c, n in cells.items():
                self.count(t, c, n)
        for m, n in d["monitors"].items():
            self.monitor(m, n)
        for o, n in d["outcomes"].items():
            self.outcome(o, n)
        for k, v in d["violations"].items():
            mine = self.violations.get(k)
            if mine is None:
                self.violations[k] = dict(v)
            else:
                mine["count"] += v["count"]
                if len(json.dumps(v["case"], default=repr)) < len(json.dumps(mine["case"], default=repr)):
                    mine["case"], mine["what"] = v["case"], v["what"]
        for r in d["inconclusive"]:
            self.inconclusive_because(r)
        for k, v in d.get("extra", {}).items():
            if isinstance(v, (int, float)) and isinstance(self.extra.get(k, 0), (int, float)):
                if k.startswith("max_"):
                    self.extra[k] = max(self.extra.get(k, 0), v)
                else:
                    self.extra[k] = self.extra.get(k, 0) + v
            elif isinstance(v, list):
                cur = self.extra.setdefault(k, [])
                for x in v:
                    if x not in cur and len(cur) < 200:
                        cur.append(x)
            elif isinstance(v, bool) or isinstance(v, str):
                self.extra.setdefault(k, v)
            elif isinstance(v, dict):
                cur = self.extra.setdefault(k, {})
                for kk, vv in v.items():
                    if isinstance(vv, (int, float)):
                        cur[kk] = cur.get(kk, 0) + vv
                    else:
                        cur.setdefault(kk, vv)


class Ctx(object):
    def __init__(self, prop, tier, seed, shard, nshards, rec=None):
        self.prop = prop
        self.tier = tier
        self.seed = seed
        self.shard = shard
        self.nshards = nshards
        self.rec = rec or Recorder()
        self.t0 = time.time()
        self.deadline = None

    def rng(self, *parts):
        s = "%s|%s|%s|%s" % (self.prop, self.seed, self.shard, "|".join(map(str, parts)))
        return random.Random(int(hashlib.sha1(s.encode()).hexdigest()[:16], 16))

    def quick(self):
        return self.tier == "quick"

    def pick(self, quick, thorough):
        return quick if self.tier == "quick" else thorough

    def mine(self, i):
        """Round-robin ownership of enumerated case i among shards."""
        return i % self.nshards == self.shard

    def time_left(self):
        if self.deadline is None:
            return 1e9
        return self.deadline - time.time()


# ---------------------------------------------------------------------------------------------
# known findings

def load_known():
    path = os.path.join(env.VERIF, "known_findings.json")
    if not os.path.exists(path):
        return []
    with open(path) as f:
        return json.load(f)["findings"]


def safe_name(key):
    return re.sub(r"[^A-Za-z0-9_.=+-]+", "_", key)[:150]


def conclude(prop, tier, seed, level, rule, assumptions, rec, wall, required_monitors=(),
             min_cases=2, exhaustive=None, note=None):
    """Write evidence, print verdict lines, return exit code."""
    known = {(k["property"], k["key"]): k for k in load_known()}
    new, hit = [], []
    for key in sorted(rec.violations):
        k = known.get((prop, key))
        if k is not None and k.get("status") == "open":
            hit.append(key)
        else:
            new.append(key)

    inconclusive = list(rec.inconclusive)
    for m in required_monitors:
        if rec.monitors.get(m, 0) == 0:
            inconclusive.append("monitor '%s' was never evaluated" % m)
    if len(rec.cases) < min_cases:
        inconclusive.append("only %d distinct non-trivial cases" % len(rec.cases))

    coverage = {
        "evaluations": rec.evaluations,
        "distinct_nontrivial": len(rec.cases),
        "rule": rule,
        "samples": rec.samples[:MAX_SAMPLES] or ["(none)"],
        "trivial_cases": rec.trivial,
        "monitor_evaluations": rec.monitors,
        "coverage_table": rec.tables,
        "outcomes": rec.outcomes,
        "distinct_states": len(rec.states),
        "known_findings_hit": {k: rec.violations[k]["count"] for k in hit},
        "new_violations": {k: rec.violations[k]["count"] for k in new},
        "inconclusive_reasons": inconclusive,
    }
    if exhaustive is not None:
        coverage["exhaustive"] = bool(exhaustive)
    if note:
        coverage["note"] = note
    coverage.update(rec.extra)
    evidence = {
        "property_id": prop, "tier": tier, "seed": seed, "level": level,
        "coverage": coverage, "assumptions": list(assumptions),
        "wall_s": round(wall, 2), "violations": len(new),
    }
    os.makedirs(os.path.join(env.VERIF, "evidence"), exist_ok=True)
    with open(os.path.join(env.VERIF, "evidence", prop + ".json"), "w") as f:
        json.dump(evidence, f, indent=1, default=repr, sort_keys=True)

    for key in hit:
        env.say("KNOWN-FINDING: property=%s %s -- %s (seen %d times)" % (
            prop, key, known[(prop, key)].get("what", ""), rec.violations[key]["count"]))
    code = 0
    if new:
        rdir = os.path.join(env.VERIF, "replays", prop)
        os.makedirs(rdir, exist_ok=True)
        for key in new:
            v = rec.violations[key]
            path = os.path.join(rdir, safe_name(key) + ".json")
            with open(path, "w") as f:
                json.dump({"property": prop, "key": key, "what": v["what"], "seed": seed,
                           "tier": tier, "case": v["case"]}, f, indent=1, default=repr)
            env.say("VIOLATION property=%s replay=%s" % (prop, path))
            env.say("  key=%s count=%d :: %s" % (key, v["count"], str(v["what"])[:600]))
        code = 1
    if inconclusive:
        for r in inconclusive:
            env.say("INCONCLUSIVE property=%s reason=%s" % (prop, str(r)[:1200]))
        if code == 0:
            code = 2
    env.say("%s %s tier=%s seed=%s evaluations=%d distinct_nontrivial=%d known=%d new=%d wall=%.1fs" % (
        prop, {0: "HELD", 1: "VIOLATED", 2: "INCONCLUSIVE"}[code], tier, seed, rec.evaluations,
        len(rec.cases), len(hit), len(new), wall))
    return code
