"""Mechanism signatures for diff items of the round-trip checks.  Keys are computed from structured
facts of the expected value (its shape class) and of the effect -- never from the random content."""
import datetime as dt
import re

YAMLISH = re.compile(r"^(yes|no|null|~|true|false|on|off|[-+]?\d[\d_]*|[-+]?(\d+\.?\d*|\.\d+)([eE][-+]?\d+)?"
                     r"|0x[0-9a-fA-F]+|\d{4}-\d\d-\d\d.*|\d\d:\d\d:\d\d|nan|inf|\.nan|\.inf)$", re.I)


def text_shape(s):
    """First matching shape tag of a text."""
    if s == "":
        return "empty"
    if s.strip() == "":
        return "ws-only"
    if "\r" in s:
        return "cr"
    if "\n" in s:
        return "newline"
    if '"' in s:
        return "dquote"
    if "," in s:
        return "comma"
    if s.strip().startswith("[") and s.strip().endswith("]"):
        return "bracketed"
    if s != s.strip():
        return "outer-ws"
    if "\t" in s:
        return "tab"
    if "[" in s or "]" in s:
        return "bracket-char"
    if any(c in s for c in "<>&"):
        return "xmlmeta"
    if YAMLISH.match(s.strip()):
        return "yamlish"
    if any(ord(c) > 127 for c in s):
        return "nonascii"
    if any(c in s for c in "'#:{}*&!|>%@`\\;()"):
        return "punct"
    return "plain"


SHAPE_PRIORITY = ["cr", "newline", "dquote", "comma", "empty", "ws-only", "bracketed", "outer-ws", "tab",
                  "bracket-char", "xmlmeta", "yamlish", "nonascii", "punct", "plain"]


def dtype_class(dtype, values=()):
    if dtype is None:
        return "untyped"
    if dtype.endswith("-tuple"):
        return "tuple"
    if dtype in ("string", "text", "url", "person"):
        return "text"
    if dtype in ("date", "time", "datetime"):
        return "temporal"
    return dtype  # int, float, boolean


def values_shape(values, dtype):
    n = "empty" if not values else ("single" if len(values) == 1 else "multi")
    dc = dtype_class(dtype)
    if dc == "text":
        shapes = {text_shape(v) if isinstance(v, str) else "nonstr" for v in values}
        for s in SHAPE_PRIORITY:
            if s in shapes:
                return "%s:%s:%s" % (dc, n, s)
        return "%s:%s:other" % (dc, n)
    if dc == "tuple":
        shapes = set()
        for v in values:
            if isinstance(v, list):
                for x in v:
                    shapes.add(text_shape(x) if isinstance(x, str) else "nonstr")
        if any(isinstance(v, list) and any(set(x) & set(",;()[]") for x in v if isinstance(x, str))
               for v in values):
            return "tuple:%s:element-with-syntax-char" % n
        for s in SHAPE_PRIORITY:
            if s in shapes:
                return "%s:%s:%s" % (dc, n, s)
        return "%s:%s:other" % (dc, n)
    if dc == "float":
        import math
        if any(isinstance(v, float) and (math.isnan(v) or math.isinf(v)) for v in values):
            return "float:%s:nonfinite" % n
        if any(isinstance(v, float) and v == 0 and math.copysign(1, v) < 0 for v in values):
            return "float:%s:negzero" % n
        return "float:%s" % n
    if dc == "int":
        if any(isinstance(v, int) and abs(v) >= 2 ** 63 for v in values):
            return "int:%s:big" % n
    return "%s:%s" % (dc, n)


def values_effect(exp, obs):
    if not isinstance(obs, list):
        return "not-a-list"
    if len(exp) != len(obs):
        return "lost" if len(obs) == 0 else "count-changed"
    if any(type(a) is not type(b) for a, b in zip(exp, obs)):
        return "retyped"
    return "altered"


def card_shape(c):
    if c is None:
        return "unset"
    if not isinstance(c, tuple) or len(c) != 2:
        return "malformed"
    a, b = c
    if a is not None and b is not None:
        return "min==max" if a == b else "min<max"
    return "max-only" if a is None else "min-only"


def scalar_effect(exp, obs):
    if obs is None:
        return "dropped"
    if type(exp) is not type(obs):
        return "retyped-%s" % type(obs).__name__
    return "altered"


def attr_shape(v):
    if v is None:
        return "unset"
    if isinstance(v, bool):
        return "bool"
    if isinstance(v, (int, float)):
        return "falsy-number" if not v else "number"
    if isinstance(v, (dt.date, dt.time)):
        return "temporal"
    if isinstance(v, str):
        return text_shape(v)
    return type(v).__name__


def classify_item(item, fmt):
    """Mechanism key for one diff item of a save/load round trip in format fmt."""
    f = item["field"]
    exp, obs = item["exp"], item["obs"]
    if f in ("values", "replaced-by-default", "child-missing") and item.get("kind", "prop") == "prop" and \
            "element-with-syntax-char" in values_shape(exp or [], item.get("ctx", {}).get("dtype")):
        return "%s/tuple-element-with-syntax-char" % fmt
    if f == "values":
        return "%s/values:%s/%s" % (fmt, values_shape(exp, item.get("ctx", {}).get("dtype")),
                                    values_effect(exp, obs))
    if f.endswith("_cardinality"):
        return "%s/cardinality:%s/%s" % (fmt, card_shape(exp), "dropped" if obs is None else "altered")
    if f == "child-missing":
        shape = values_shape(exp, item.get("ctx", {}).get("dtype")) if item.get("kind") == "prop" else "section"
        return "%s/child-missing:%s" % (fmt, shape)
    if f == "child-extra":
        return "%s/child-extra:%s" % (fmt, item.get("kind"))
    if f.endswith(".order"):
        return "%s/children:%s/reordered" % (fmt, f.split(".")[0])
    if f.endswith(".names"):
        return "%s/children:%s/changed" % (fmt, f.split(".")[0])
    if f == "replaced-by-default":
        shape = values_shape(exp, item.get("ctx", {}).get("dtype")) if item.get("kind") == "prop" else "section"
        return "%s/object-replaced-by-default:%s" % (fmt, shape)
    if f == "kind":
        return "%s/kind/changed" % fmt
    if f == "dtype":
        return "%s/dtype:%s/%s" % (fmt, exp, "dropped" if obs is None else "altered")
    return "%s/attr:%s.%s:%s/%s" % (fmt, item.get("kind", "?"), f, attr_shape(exp), scalar_effect(exp, obs))
