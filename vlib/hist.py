"""History driver for C03-C06 (and the cardinality setters of C09): a small op DSL executed against the
real objects through the public API only; whole-graph invariants, naming/id/value predicates and
the snapshot-on-raise monitor are evaluated at the boundary of every driver-issued call (the
quiescent points: the driver is the only client, so the boundary of its call is where a state
becomes observable)."""
import datetime as dt
import re
import uuid

from . import budget
from .model import enc, dec, kind

SEC_NAMES = ["a", "b", "c"]
PROP_NAMES = ["p", "q", "r"]
ALIASES = {"str": "string", "bool": "boolean"}   # documented aliases (odml.dtypes._dtype_map)
CANON_DTYPES = {"string", "text", "int", "float", "url", "datetime", "date", "time", "boolean", "person"}
TUPLE_RE = re.compile(r"^[1-9][0-9]*-tuple$")
PYTYPE = {"string": str, "text": str, "url": str, "person": str, "int": int, "float": float,
          "boolean": bool, "date": dt.date, "time": dt.time, "datetime": dt.datetime}


class SkipOp(Exception):
    """The op refers to an object whose creation was refused earlier in the history."""


class World(object):
    def __init__(self):
        self.objs = []

    def get(self, ref):
        if isinstance(ref, bool) or ref is None:
            return ref
        if isinstance(ref, int):
            if self.objs[ref] is None:
                raise SkipOp("object %d was never created" % ref)
            return self.objs[ref]
        if isinstance(ref, dict) and "lit" in ref:
            return dec(ref["lit"])
        if isinstance(ref, list):
            return [self.get(r) for r in ref]
        return ref

    def kind(self, ref):
        if isinstance(ref, int) and not isinstance(ref, bool) and 0 <= ref < len(self.objs):
            return kind(self.objs[ref])
        return None

    def refs(self, k):
        return [i for i, o in enumerate(self.objs) if o is not None and kind(o) == k]


def raw_children(o):
    d = o.__dict__
    secs = list(list.__iter__(d.get("_sections", []))) if "_sections" in d else []
    props = list(list.__iter__(d.get("_props", []))) if "_props" in d else []
    return secs, props


def universe(world):
    seen, order, stack = set(), [], [o for o in world.objs if kind(o)]
    while stack:
        o = stack.pop()
        if id(o) in seen or not kind(o):
            continue
        seen.add(id(o))
        order.append(o)
        secs, props = raw_children(o)
        stack.extend(secs)
        stack.extend(props)
        p = o.__dict__.get("_parent")
        if p is not None:
            stack.append(p)
        m = o.__dict__.get("_merged")
        if m is not None:
            stack.append(m)
    return order


def tval(v):
    if isinstance(v, (list, tuple)):
        return (type(v).__name__,) + tuple(tval(x) for x in v)
    return (type(v).__name__, repr(v))


def state_of(o):
    d = o.__dict__
    k = kind(o)
    secs, props = raw_children(o)
    par = d.get("_parent")
    base = (k, d.get("_id"), d.get("_name"), id(par) if par is not None else None,
            tuple(id(c) for c in secs), tuple(id(c) for c in props))
    if k == "doc":
        return base + (tval(d.get("_author")), tval(d.get("_version")), tval(d.get("_date")),
                       tval(d.get("_repository")))
    if k == "sec":
        m = d.get("_merged")
        return base + (tval(d.get("type", getattr(type(o), "type", None))), tval(d.get("_definition")),
                       tval(d.get("_reference")), tval(d.get("_repository")), tval(d.get("_link")),
                       tval(d.get("_include")), tval(d.get("_sec_cardinality")),
                       tval(d.get("_prop_cardinality")), id(m) if m is not None else None)
    return base + (tval(d.get("_dtype")), tval(d.get("_values")), id(d.get("_values")),
                   tval(d.get("_unit")), tval(d.get("_uncertainty")),
                   tval(d.get("_reference")), tval(d.get("_definition")), tval(d.get("_dependency")),
                   tval(d.get("_dependency_value")), tval(d.get("_value_origin")),
                   tval(d.get("_val_cardinality")))


STATE_FIELDS = {
    "doc": ["kind", "id", "name", "parent", "sections", "properties", "author", "version", "date", "repository"],
    "sec": ["kind", "id", "name", "parent", "sections", "properties", "type", "definition", "reference",
            "repository", "link", "include", "sec_cardinality", "prop_cardinality", "merged"],
    "prop": ["kind", "id", "name", "parent", "sections", "properties", "dtype", "values", "values-list-identity",
             "unit", "uncertainty", "reference", "definition", "dependency", "dependency_value",
             "value_origin", "val_cardinality"],
}


def snapshot(objs):
    return {id(o): state_of(o) for o in objs}


def snapshot_diff(before, after, objs_before):
    """Names of changed fields per pre-existing object."""
    changed = []
    for o in objs_before:
        b, a = before[id(o)], after.get(id(o))
        if a is None:
            a = state_of(o)
        if a != b:
            names = STATE_FIELDS[b[0]]
            for i, (x, y) in enumerate(zip(b, a)):
                if x != y:
                    changed.append("%s.%s" % (b[0], names[i]))
    return sorted(set(changed))


# ---------------------------------------------------------------------------------------------
# predicates

def canonical_id(s):
    try:
        return isinstance(s, str) and str(uuid.UUID(s)) == s
    except (ValueError, AttributeError, TypeError):
        return False


def value_conforms(v, dtype):
    if dtype is None:
        return False
    if TUPLE_RE.match(dtype):
        n = int(dtype[:-6])
        return isinstance(v, list) and len(v) == n and all(isinstance(x, str) for x in v)
    t = PYTYPE.get(dtype)
    if t is None:
        return False
    if type(v) is not t:
        return False
    if t in (dt.time, dt.datetime) and (v.microsecond != 0 or v.tzinfo is not None):
        return False   # normal form: no sub-second part, naive
    return True


def facts(objs, run_queries=True):
    """Failing facts as a set of (predicate, id(obj)).  Three families: 'T:' tree (C03),
    'N:' names/ids (C04), 'V:' values (C05)."""
    out = set()
    listed = {}      # id(child) -> list of containers listing it
    for k in objs:
        secs, props = raw_children(k)
        for lst in (secs, props):
            for c in lst:
                listed.setdefault(id(c), []).append(k)
                if c.__dict__.get("_parent") is not k:
                    out.add(("T:child-parent-mismatch", id(c)))
        for lname, lst in (("section", secs), ("property", props)):
            names = [c.__dict__.get("_name") for c in lst]
            if len(set(map(repr, names))) != len(names):
                out.add(("N:dup-%s-name" % lname, id(k)))
    acyclic = set()
    for x in objs:
        k = kind(x)
        d = x.__dict__
        if k in ("sec", "prop"):
            par = d.get("_parent")
            where = listed.get(id(x), [])
            if par is None and where:
                out.add(("T:listed-without-parent", id(x)))
            if par is not None:
                if len(where) == 0:
                    out.add(("T:parent-but-unlisted", id(x)))
                elif len(where) > 1:
                    out.add(("T:listed-twice", id(x)))
                elif where[0] is not par:
                    out.add(("T:listed-in-other-than-parent", id(x)))
            # cycle
            seen, cur, cyc = set(), x, False
            while cur is not None:
                if id(cur) in seen:
                    cyc = True
                    break
                seen.add(id(cur))
                cur = cur.__dict__.get("_parent")
            if cyc:
                out.add(("T:cycle", id(x)))
            else:
                acyclic.add(id(x))
            name = d.get("_name")
            if not isinstance(name, str):
                out.add(("N:name-not-str", id(x)))
            elif name == "":
                out.add(("N:name-empty", id(x)))
        else:
            acyclic.add(id(x))
        if not canonical_id(d.get("_id")):
            out.add(("N:id-not-canonical", id(x)))
        if k == "prop":
            dtype = d.get("_dtype")
            vals = d.get("_values")
            if not isinstance(vals, list):
                out.add(("V:values-not-list", id(x)))
                vals = []
            if dtype is None:
                if vals:
                    out.add(("V:values-without-dtype", id(x)))
            elif not (ALIASES.get(dtype, dtype) in CANON_DTYPES or (isinstance(dtype, str) and TUPLE_RE.match(dtype))):
                out.add(("V:dtype-invalid", id(x)))
            else:
                for v in vals:
                    if not value_conforms(v, ALIASES.get(dtype, dtype)):
                        out.add(("V:value-not-of-dtype", id(x)))
                        break
    if run_queries:
        for x in objs:
            if id(x) not in acyclic:
                # the queries are driven under the step budget even on a cyclic graph: a hang is
                # turned into a fact instead of being skipped
                ok, res, _ = budget.run(lambda: _queries(x), 20000)
                if not ok:
                    out.add(("T:query-does-not-terminate", id(x)))
                continue
            ok, res, _ = budget.run(lambda: _queries(x), 200000)
            if not ok:
                out.add(("T:query-does-not-terminate", id(x)))
            elif res is not None:
                out.add(("T:" + res, id(x)))
    return out


def _queries(x):
    """Public queries of C03; returns a failing-fact name or None."""
    k = kind(x)
    try:
        # expected document: root of the raw parent chain
        cur, n = x, 0
        while cur.__dict__.get("_parent") is not None and n < 10000:
            cur = cur.__dict__.get("_parent")
            n += 1
        exp_doc = cur if kind(cur) == "doc" else None
        if x.document is not exp_doc:
            return "document-is-not-root-of-parent-chain"
        x.get_path()
        if k in ("doc", "sec"):
            n1 = sum(1 for _ in x.itersections())
            n2 = sum(1 for _ in x.iterproperties())
            if n1 > 100000 or n2 > 100000:
                return "traversal-unbounded"
    except budget.BudgetExceeded:
        raise
    except Exception as exc:
        return "query-raised-%s" % type(exc).__name__
    return None


def fact_names(fs, prefix):
    return sorted({f[0][2:] for f in fs if f[0].startswith(prefix)})


# ---------------------------------------------------------------------------------------------
# op execution

def is_ancestor(a, x):
    """a is a (raw) ancestor of x (or x itself)."""
    cur, n = x, 0
    while cur is not None and n < 1000:
        if cur is a:
            return True
        cur = cur.__dict__.get("_parent") if kind(cur) else None
        n += 1
    return False


def arg_tags(k, x, lst=None):
    """Pre-state class of argument x relative to destination container k."""
    tags = []
    kx, kk = kind(x), kind(k)
    if kx is None:
        return ["arg-not-odml"]
    if kk is None:
        return ["dest-not-odml"]
    if kx == "doc":
        return ["arg-is-document"]
    if kk == "prop" or (kk == "doc" and kx == "prop"):
        tags.append("wrong-type")
    par = x.__dict__.get("_parent")
    if x is k:
        tags.append("arg-is-dest")
    elif kx == "sec" and is_ancestor(x, k):
        tags.append("arg-is-ancestor-of-dest")
    if par is None:
        tags.append("detached")
    elif par is k:
        tags.append("attached-here")
    else:
        tags.append("attached-elsewhere")
    if kk in ("doc", "sec"):
        secs, props = raw_children(k)
        sibs = secs if kx == "sec" else props
        if any(c is not x and c.__dict__.get("_name") == x.__dict__.get("_name") for c in sibs):
            tags.append("name-clash")
    return tags


def valid_card(v):
    if v is None:
        return True
    if isinstance(v, bool):
        return not v
    if isinstance(v, int):
        return v >= 0
    if isinstance(v, (tuple, list)) and len(v) == 2:
        a, b = v
        for z in (a, b):
            if z is not None and (isinstance(z, bool) or not isinstance(z, int) or z < 0):
                return False
        if a is not None and b is not None and a and b and a > b:
            return False
        return True
    return not v


def execute(world, op, dry=False):
    """Run one op (dry=True: only classify the pre-state).  Returns dict(tags=[...], raised=exc|None, ret=..., new=index|None)."""
    import odml
    name = op[0]
    g = world.get
    tags = []
    new = None
    fn = None
    if name == "nop":
        world.objs.append(None)
        return {"tags": [], "raised": None, "ret": None, "new": len(world.objs) - 1}
    if name == "doc":
        dextra = dict(op[1]) if len(op) > 1 and op[1] else {}
        if "oid" in dextra:
            tags.append("oid-canonical" if canonical_id(dextra["oid"]) else "oid-noncanonical")
        for dk in ("date", "version", "author"):
            if dk in dextra:
                dextra[dk] = dec(dextra[dk])
                tags.append("with-" + dk)
        fn = lambda: odml.Document(**dextra)
        new = True
    elif name == "sec":
        _, nm, typ, parent, extra = op
        extra = dict(extra or {})
        par = g(parent)
        tags = ["no-parent"] if par is None else ["parent-" + (kind(par) or "not-odml")]
        if par is not None and kind(par) in ("doc", "sec"):
            if any(c.__dict__.get("_name") == nm for c in raw_children(par)[0]):
                tags.append("name-clash")
        for ck in ("sec_cardinality", "prop_cardinality"):
            if ck in extra:
                extra[ck] = dec(extra[ck])
                if not valid_card(extra[ck]):
                    tags.append("invalid-cardinality")
        if "oid" in extra:
            tags.append("oid-canonical" if canonical_id(extra["oid"]) else "oid-noncanonical")
        fn = lambda: odml.Section(name=nm, type=typ, parent=par, **extra)
        new = True
    elif name == "prop":
        _, nm, vals, dtype, parent, extra = op
        extra = dict(extra or {})
        par = g(parent)
        vals = dec(vals)
        tags = ["no-parent"] if par is None else ["parent-" + (kind(par) or "not-odml")]
        if par is not None and kind(par) == "sec":
            if any(c.__dict__.get("_name") == nm for c in raw_children(par)[1]):
                tags.append("name-clash")
        if "val_cardinality" in extra:
            extra["val_cardinality"] = dec(extra["val_cardinality"])
            if not valid_card(extra["val_cardinality"]):
                tags.append("invalid-cardinality")
        if "oid" in extra:
            tags.append("oid-canonical" if canonical_id(extra["oid"]) else "oid-noncanonical")
        dtype = odml.DType.int if dtype == "DType.int" else dtype
        fn = lambda: odml.Property(name=nm, values=vals, dtype=dtype, parent=par, **extra)
        new = True
    elif name == "create_section":
        _, cont, nm, typ = op[:4]
        k = g(cont)
        tags = ["dest-" + (kind(k) or "not-odml")]
        if kind(k) in ("doc", "sec") and any(c.__dict__.get("_name") == nm for c in raw_children(k)[0]):
            tags.append("name-clash")
        fn = lambda: k.create_section(nm, typ)
        new = True
    elif name == "create_property":
        _, cont, nm, vals, dtype = op
        k = g(cont)
        vals = dec(vals)
        tags = ["dest-" + (kind(k) or "not-odml")]
        if kind(k) == "sec" and any(c.__dict__.get("_name") == nm for c in raw_children(k)[1]):
            tags.append("name-clash")
        fn = lambda: k.create_property(nm, vals, dtype)
        new = True
    elif name in ("append", "remove"):
        _, cont, obj = op
        k, x = g(cont), g(obj)
        tags = arg_tags(k, x)
        if name == "remove" and kind(x) and kind(k):
            secs, props = raw_children(k)
            tags = ["is-child" if any(c is x for c in secs + props) else "not-a-child"]
            if kind(k) == "doc" and kind(x) == "prop":
                tags.append("wrong-type")
        fn = lambda: getattr(k, name)(x)
    elif name == "insert":
        _, cont, pos, obj = op
        pos = dec(pos)
        k, x = g(cont), g(obj)
        tags = arg_tags(k, x)
        if not isinstance(pos, int) or isinstance(pos, bool):
            tags.append("index-not-an-integer")
        fn = lambda: k.insert(pos, x)
    elif name == "extend":
        _, cont, objs = op
        k = g(cont)
        xs = g(objs) if isinstance(objs, list) else g(objs)
        tags = []
        if isinstance(xs, list):
            per = [arg_tags(k, x) for x in xs]
            tags = sorted({t for p in per for t in p} - {"detached"})
            nm = [x.__dict__.get("_name") for x in xs if kind(x)]
            kinds = [kind(x) for x in xs if kind(x)]
            if len({(a, b) for a, b in zip(kinds, nm)}) != len(nm):
                tags.append("duplicate-inside-argument")
            if len({id(x) for x in xs}) != len(xs):
                tags.append("same-object-twice")
        else:
            tags = ["arg-not-a-list"]
        fn = lambda: k.extend(xs)
    elif name == "set_parent":
        _, obj, cont = op
        x, k = g(obj), g(cont)
        if k is None:
            tags = ["to-none", "detached" if x.__dict__.get("_parent") is None else "attached"]
        else:
            tags = arg_tags(k, x)

        def fn():
            x.parent = k
    elif name == "setitem":
        _, cont, lst, idx, obj = op
        k, x = g(cont), g(obj)
        tags = arg_tags(k, x)
        n = len(raw_children(k)[0 if lst == "sections" else 1]) if kind(k) in ("doc", "sec") else 0
        if isinstance(idx, str):
            # the element is addressed by its name
            names_ = [c.__dict__.get("_name") for c in raw_children(k)[0 if lst == "sections" else 1]] if kind(k) in ("doc", "sec") else []
            tags.append("key-is-name")
            idx_key = idx
            idx = names_.index(idx) if idx in names_ else n + 5
        elif isinstance(idx, dict) and "$obj" in idx:
            # the element is addressed by an object (the list looks it up by identity / equality)
            idx_key = g(idx["$obj"])
            tags.append("key-is-object")
            pool = raw_children(k)[0 if lst == "sections" else 1] if kind(k) in ("doc", "sec") else []
            idx = next((i for i, c in enumerate(pool) if c is idx_key), n + 5)
        elif isinstance(idx, dict) and "$slice" in idx:
            idx_key = slice(*idx["$slice"])
            tags.append("key-is-slice")
            idx = n + 5
        elif not isinstance(idx, int):
            idx_key = dec(idx)
            tags.append("index-not-an-integer")
            idx = n + 5
        else:
            idx_key = idx
        tags.append("index-in-range" if -n <= idx < n else "index-out-of-range")
        if kind(k) and kind(x) and ((lst == "sections") != (kind(x) == "sec")):
            tags.append("wrong-type")
        if kind(k) in ("doc", "sec") and -n <= idx < n:
            cur = raw_children(k)[0 if lst == "sections" else 1][idx]
            if cur is x:
                tags.append("replaces-itself")
            elif "name-clash" in tags and cur.__dict__.get("_name") == x.__dict__.get("_name") and \
                    sum(1 for c in raw_children(k)[0 if lst == "sections" else 1]
                        if c.__dict__.get("_name") == x.__dict__.get("_name") and c is not x) == 1:
                # the only clash is the element being replaced: not a clash after the operation
                tags.remove("name-clash")
                tags.append("replaces-same-name")

        def fn():
            getattr(k, lst)[idx_key] = x
    elif name == "reorder":
        _, obj, idx = op
        idx = dec(idx)
        x = g(obj)
        par = x.__dict__.get("_parent")
        if par is None:
            tags = ["detached"]
        elif not isinstance(idx, int) or isinstance(idx, bool):
            tags = ["index-not-an-integer"]
        else:
            n = len(raw_children(par)[0 if kind(x) == "sec" else 1])
            tags = ["index-negative" if idx < 0 else ("index-in-range" if idx < n else "index-beyond-end")]
        fn = lambda: x.reorder(idx)
    elif name == "rename":
        _, obj, nm = op
        x = g(obj)
        nm = dec(nm)
        par = x.__dict__.get("_parent")
        if not nm:
            tags = ["to-empty"]
        elif nm == x.__dict__.get("_name"):
            tags = ["to-own-name"]
        else:
            tags = ["to-other"]
            if par is not None:
                sibs = raw_children(par)[0 if kind(x) == "sec" else 1]
                if any(c is not x and c.__dict__.get("_name") == nm for c in sibs):
                    tags.append("name-clash")
        tags.append("detached" if par is None else "attached")

        def fn():
            x.name = nm
    elif name == "clone":
        _, obj, children, keep_id = op
        x = g(obj)
        tags = [kind(x) or "not-odml"]
        if kind(x) == "prop":
            fn = lambda: x.clone(keep_id=keep_id)
        else:
            fn = lambda: x.clone(children=children, keep_id=keep_id)
        new = True
    elif name == "merge":
        _, dst, src, strict = op
        a, b = g(dst), g(src)
        tags = ["%s<-%s" % (kind(a) or "x", kind(b) or "x")]
        if a is b:
            tags.append("self")
        elif kind(a) == "sec" and kind(b) == "sec" and (is_ancestor(a, b) or is_ancestor(b, a)):
            tags.append("related")
        tags.append("strict" if strict else "lenient")
        fn = lambda: a.merge(b, strict=strict)
    elif name == "set_link":
        _, sec, target = op
        s = g(sec)
        t = g(target)
        if kind(t) == "sec":
            try:
                path = t.get_path()
            except Exception:
                path = "/nowhere"
            tags = ["to-section"]
            if t is s:
                tags.append("self")
            elif is_ancestor(t, s):
                tags.append("ancestor")
            elif is_ancestor(s, t):
                tags.append("descendant")
            if t.document is not s.document or s.document is None:
                tags.append("other-document-or-detached")
        else:
            path = t
            tags = ["to-none" if not t else "to-unresolvable-path"]
        tags.append("attached" if s.__dict__.get("_parent") is not None else "detached")
        if s.__dict__.get("_link") is not None:
            tags.append("relink")
        if kind(t) == "sec":
            root = s
            while root.__dict__.get("_parent") is not None:
                root = root.__dict__.get("_parent")
            if "chained-or-nested-links" in link_hazards(root, (s, t)):
                tags.append("chained-or-nested-links")

        def fn():
            s.link = path
    elif name == "set_include":
        _, sec, url = op
        s = g(sec)
        tags = ["to-none" if not url else ("unavailable-resource" if "nonexistent" in url else "available-resource")]
        tags.append("attached" if s.__dict__.get("_parent") is not None else "detached")
        if s.__dict__.get("_link") is not None:
            tags.append("has-link")

        def fn():
            s.include = url
    elif name == "finalize":
        d = g(op[1])
        tags = []
        # links whose target lies in the linking Section's own branch are outside every quantifier (C12
        # excludes them; resolving one copies the Section into itself without end)
        tags = sorted(set(link_hazards(d)))
        fn = lambda: d.finalize()
    elif name == "clean":
        d = g(op[1])
        tags = [kind(d) or "not-odml"]
        fn = lambda: d.clean()
    elif name == "new_id":
        _, obj, oid = op
        x = g(obj)
        tags = ["fresh" if oid is None else ("oid-canonical" if canonical_id(oid) else
                                              ("oid-parseable" if _parses(oid) else "oid-malformed"))]
        fn = lambda: x.new_id(oid)
    elif name == "set_card":
        _, obj, ck, val = op
        x = g(obj)
        val = dec(val)
        tags = ["valid" if valid_card(val) else "invalid"]

        def fn():
            setattr(x, ck, val)
    elif name == "set_card2":
        _, obj, meth, a, b = op
        x = g(obj)
        tags = ["valid" if valid_card((a, b)) else "invalid"]
        fn = lambda: getattr(x, meth)(a, b)
    elif name == "set_attr":
        _, obj, attr, val = op
        x = g(obj)
        val = dec(val)
        tags = [attr, "was-set" if getattr(x, "__dict__", {}).get("_" + attr, getattr(x, "__dict__", {}).get(attr)) is not None
                else "was-unset"]

        def fn():
            setattr(x, attr, val)
    # ---- value operations (C05)
    elif name == "set_values":
        x = g(op[1])
        val = dec(op[2])
        tags = []

        def fn():
            x.values = val
    elif name == "set_dtype":
        x = g(op[1])
        val = odml.DType.int if op[2] == "DType.int" else op[2]
        tags = ["has-values" if x.__dict__.get("_values") else "no-values"]

        def fn():
            x.dtype = val
    elif name in ("pappend", "pextend"):
        x = g(op[1])
        val = dec(op[2])
        strict = op[3]
        tags = ["has-values" if x.__dict__.get("_values") else "no-values"]
        fn = lambda: getattr(x, name[1:])(val, strict=strict)
    elif name == "pextend_prop":
        x, y = g(op[1]), g(op[2])
        tags = []
        fn = lambda: x.extend(y)
    elif name == "pinsert":
        x = g(op[1])
        val = dec(op[3])
        tags = ["has-values" if x.__dict__.get("_values") else "no-values"]
        fn = lambda: x.insert(op[2], val, strict=op[4])
    elif name == "psetitem":
        x = g(op[1])
        val = dec(op[3])
        n = len(x.__dict__.get("_values") or [])
        tags = ["index-in-range" if 0 <= op[2] < n else "index-out-of-range"]

        def fn():
            x[op[2]] = val
    elif name == "premove":
        x = g(op[1])
        val = dec(op[2])
        tags = []
        fn = lambda: x.remove(val)
    elif name == "reassign_values":
        x = g(op[1])
        tags = []

        def fn():
            x.values = x.values
    else:
        raise AssertionError("unknown op %r" % (op,))
    if dry:
        return {"tags": tags}
    res = {"tags": tags, "raised": None, "ret": None, "new": None}
    ok, out, calls = budget.run(lambda: _call(fn), 2000000)
    if not ok:
        res["raised"] = out
        res["hang"] = True
    elif out[0]:
        res["raised"] = out[1]
    else:
        res["ret"] = out[1]
    if new:
        world.objs.append(res["ret"] if res["raised"] is None and kind(res["ret"]) else None)
        res["new"] = len(world.objs) - 1
    return res


def link_hazards(d, extra=None):
    """Tags for link constellations that C12's quantifier excludes (resolving them may never end):
    a link into the linking Section's own branch, and chained / nested links (a target that is, contains
    or lies inside another linking Section).  extra = (section, target) about to be linked."""
    tags = []
    pairs = []
    stack = list(raw_children(d)[0]) if kind(d) in ("doc", "sec") else []
    n = 0
    while stack and n < 500:
        s_ = stack.pop()
        n += 1
        stack.extend(raw_children(s_)[0])
        link = s_.__dict__.get("_link")
        if link is not None and not (extra and extra[0] is s_):
            ok, t, _ = budget.run(lambda: _resolve(s_, link), 20000)
            if ok and kind(t) == "sec":
                pairs.append((s_, t))
            else:
                tags.append("link-unresolvable")
    if extra is not None:
        pairs.append(extra)
    for l, t in pairs:
        if t is l or is_ancestor(t, l) or is_ancestor(l, t):
            tags.append("link-into-own-branch")
    for i, (l1, t1) in enumerate(pairs):
        for j, (l2, t2) in enumerate(pairs):
            if i != j and (t1 is l2 or is_ancestor(t1, l2) or is_ancestor(l2, t1)):
                tags.append("chained-or-nested-links")
    return tags


def _resolve(sec, link):
    try:
        return sec.get_section_by_path(link)
    except budget.BudgetExceeded:
        raise
    except Exception:
        return None


def _call(fn):
    try:
        return (False, fn())
    except budget.BudgetExceeded:
        raise
    except Exception as exc:
        return (True, exc)


def _parses(oid):
    try:
        uuid.UUID(oid)
        return True
    except Exception:
        return False
