"""File-system event recorder on sys.addaudithook: every Python-level open (with mode/flags), mkdir,
remove, rename, rmdir, truncate of the process while a recording is active.  lxml's C-level reads are
not delivered (irrelevant: only writes/creates are judged)."""
import hashlib
import os
import sys
import threading

_lock = threading.Lock()
_active = []          # stack of event lists
_installed = False

WRITE_FLAGS = os.O_WRONLY | os.O_RDWR | os.O_CREAT | os.O_TRUNC | os.O_APPEND
EVENTS = {"open", "os.mkdir", "os.remove", "os.rename", "os.rmdir", "os.truncate", "os.link", "os.symlink",
          "shutil.copyfile", "shutil.move", "shutil.rmtree", "os.chmod", "os.utime", "tempfile.mkdtemp",
          "tempfile.mkstemp"}


def _hook(event, args):
    if not _active or event not in EVENTS:
        return
    try:
        if event == "open":
            path, mode, flags = args[0], args[1], args[2]
            if isinstance(path, int):
                return
            writing = bool(flags & WRITE_FLAGS) if isinstance(flags, int) else False
            if isinstance(mode, str) and any(c in mode for c in "wax+"):
                writing = True
            rec = ("open-write" if writing else "open-read", os.path.abspath(os.fsdecode(path)))
        else:
            paths = [os.path.abspath(os.fsdecode(a)) for a in args if isinstance(a, (str, bytes, os.PathLike))]
            rec = (event,) + tuple(paths)
    except Exception as exc:  # never let the monitor break the observed call
        rec = ("hook-error", repr(exc))
    with _lock:
        for lst in _active:
            lst.append(rec)


def install():
    global _installed
    if not _installed:
        sys.addaudithook(_hook)
        _installed = True


class Recording(object):
    def __enter__(self):
        install()
        self.events = []
        with _lock:
            _active.append(self.events)
        return self

    def __exit__(self, *exc):
        with _lock:
            _active.remove(self.events)
        return False

    def writes(self):
        """Mutating events: (kind, path...)"""
        return [e for e in self.events if e[0] != "open-read"]

    def writes_under(self, root):
        root = os.path.abspath(root)
        return [e for e in self.writes() if any(p == root or p.startswith(root + os.sep) for p in e[1:])]

    def writes_outside(self, roots):
        roots = [os.path.abspath(r) for r in roots]
        out = []
        for e in self.writes():
            for p in e[1:]:
                if not any(p == r or p.startswith(r + os.sep) for r in roots):
                    out.append(e)
                    break
        return out


def tree_state(root):
    """{relative path: sha256 or 'dir'} of a directory tree."""
    out = {}
    for dp, dns, fns in os.walk(root):
        for d in dns:
            out[os.path.relpath(os.path.join(dp, d), root)] = "dir"
        for f in fns:
            p = os.path.join(dp, f)
            try:
                with open(p, "rb") as fh:
                    out[os.path.relpath(p, root)] = hashlib.sha256(fh.read()).hexdigest()
            except OSError as exc:
                out[os.path.relpath(p, root)] = "unreadable:%s" % exc
    return out
