"""Bootstrap shared by every check process.

Must be imported *before* odml: it decides which tree `odml` comes from
($VERIF_REPO or /repo), gives the process a private TMPDIR (odml.cache lives in
tempfile.gettempdir()) and silences the library's chatter while keeping the real
stdout for verdict lines.
"""
import atexit
import os
import shutil
import sys
import tempfile

VERIF = os.path.dirname(os.path.dirname(os.path.abspath(__file__)))
REPO = os.environ.get("VERIF_REPO", "/repo")
GUARD = "ODML_VERIF"

REAL_STDOUT = sys.stdout
REAL_STDERR = sys.stderr
_SCRATCH = None


def say(*a):
    """Print to the real stdout (verdict lines, progress)."""
    print(*a, file=REAL_STDOUT)
    REAL_STDOUT.flush()


class _Sink(object):
    encoding = "utf-8"

    def write(self, s):
        return len(s)

    def flush(self):
        pass

    def isatty(self):
        return False

    def fileno(self):
        raise OSError("sink")


class _AsciiSink(_Sink):
    """stdout as under PYTHONIOENCODING=ascii: text outside ASCII cannot be written."""
    encoding = "ascii"

    def write(self, s):
        s.encode("ascii")        # raises UnicodeEncodeError exactly as the real stream would
        return len(s)


class _ClosedSink(_Sink):
    """a closed stdout (daemon, closed pipe): every write fails"""

    def write(self, s):
        raise ValueError("I/O operation on closed file.")


def scratch():
    """Private scratch directory of this process (removed at exit)."""
    global _SCRATCH
    if _SCRATCH is None:
        base = os.environ.get("VERIF_SCRATCH_BASE") or tempfile.gettempdir()
        _SCRATCH = tempfile.mkdtemp(prefix="odmlverif_", dir=base)
        atexit.register(shutil.rmtree, _SCRATCH, True)
    return _SCRATCH


def bootstrap(quiet=True):
    os.environ[GUARD] = "1"
    # odml from the tree under test, first on the path
    for p in (REPO, VERIF, os.path.join(VERIF, ".deps")):
        if p in sys.path:
            sys.path.remove(p)
    sys.path.insert(0, os.path.join(VERIF, ".deps"))
    sys.path.insert(0, VERIF)
    sys.path.insert(0, REPO)
    sdir = scratch()
    tmp = os.path.join(sdir, "tmp")
    os.makedirs(tmp, exist_ok=True)
    os.environ["TMPDIR"] = tmp
    tempfile.tempdir = tmp
    if quiet:
        sys.stdout = {"ascii": _AsciiSink, "closed": _ClosedSink}.get(os.environ.get("VERIF_STDOUT"), _Sink)()
        sys.stderr = _Sink()
    import odml  # noqa
    got = os.path.dirname(os.path.dirname(os.path.abspath(odml.__file__)))
    if os.path.realpath(got) != os.path.realpath(REPO):
        say("INCONCLUSIVE reason=odml imported from %s, expected %s" % (got, REPO))
        os._exit(2)
    return sdir


def seed():
    try:
        return int(os.environ.get("VERIF_SEED", "0"))
    except ValueError:
        return 0
